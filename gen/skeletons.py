"""C02 generator: control-flow skeletons.

A skeleton is a spine of nested constructs (nesting depth <= D) with at most J jumps placed in any of
the remaining slots.  Every block is   t(n) ; <content> ; t(n')   so the executed path is visible in
the trail.  `§` is replaced by consecutive tracer numbers after generation.  Variables of a construct
are named after its nesting level, which is unique along a spine.
"""

# (name, template, number of slots).  {L} = level, {S0}.. = slots (already indented blocks)
CONSTRUCTS = [
    ("if_t", "if t(§, 1):\n{S0}\nelse:\n{S1}", 2),
    ("if_f", "if t(§, 0):\n{S0}\nelse:\n{S1}", 2),
    ("for", "for i{L} in t(§, [0, 1]):\n{S0}", 1),
    ("forelse", "for i{L} in t(§, [0, 1]):\n{S0}\nelse:\n{S1}", 2),
    ("while", "c{L} = 0\nwhile t(§, c{L} < 2):\n    c{L} += 1\n{S0}", 1),
    ("whileelse", "c{L} = 0\nwhile t(§, c{L} < 2):\n    c{L} += 1\n{S0}\nelse:\n{S1}", 2),
    ("try_e1", "try:\n{S0}\nexcept E1:\n{S1}", 2),
    ("try_tuple_as", "try:\n{S0}\nexcept (E2, E1) as e{L}:\n    t(§, type(e{L}).__name__)\n{S1}", 2),
    ("try_exc_as", "try:\n{S0}\nexcept Exception as e{L}:\n    t(§, type(e{L}).__name__)\n{S1}", 2),
    ("try_bare", "try:\n{S0}\nexcept:\n{S1}", 2),
    ("try_nomatch", "try:\n{S0}\nexcept E2:\n{S1}", 2),
    ("try_two", "try:\n{S0}\nexcept E3:\n{S1}\nexcept E1:\n{S2}", 3),
    ("try_fin", "try:\n{S0}\nfinally:\n{S1}", 2),
    ("try_base", "try:\n{S0}\nexcept BaseException as e{L}:\n    t(§, type(e{L}).__name__)\n{S1}", 2),
    ("try_full", "try:\n{S0}\nexcept E1:\n{S1}\nelse:\n{S2}\nfinally:\n{S3}", 4),
    ("with1", "with CM('a{L}'):\n{S0}", 1),
    ("with1s", "with CM('a{L}', suppress=True) as v{L}:\n{S0}", 1),
    ("with2", "with CM('a{L}') as v{L}, CM('b{L}', suppress=True):\n{S0}", 1),
    ("with_fe", "with CM('a{L}'), CM('b{L}', fail_enter=True):\n{S0}", 1),
    ("with_fx", "with CM('a{L}', fail_exit=True), CM('b{L}'):\n{S0}", 1),
    ("with_fxs", "with CM('a{L}', suppress=True), CM('b{L}', fail_exit=True):\n{S0}", 1),
    ("def", "def g{L}():\n{S0}\nt(§, g{L}())", 1),
]
QUICK_CONSTRUCTS = {"if_t", "for", "forelse", "while", "whileelse", "try_e1", "try_exc_as", "try_bare", "try_nomatch",
                    "try_fin", "try_full", "with1", "with1s", "with2", "with_fx", "def", "try_two", "try_base"}

JUMPS = [
    "break",
    "continue",
    "return t(§, 'r')",
    "raise E1('x')",
    "raise E3('y')",
    "raise B1('b')",
    "raise E2('p') from E1('q')",
    "raise",
    "t(§, 1) / 0",
    "assert t(§, 0), t(§, 'm')",
    "return",
]
QUICK_JUMPS = ["break", "continue", "return t(§, 'r')", "raise E1('x')", "raise E3('y')", "raise B1('b')", "raise", "t(§, 1) / 0"]


def _indent(text):
    return "\n".join("    " + ln for ln in text.split("\n"))


def _block(content):
    if content:
        return _indent("t(§)\n" + content + "\nt(§)")
    return _indent("t(§)")


def contents(depth, level, budget, constructs, jumps, must_construct=False):
    """Yield (text, jumps_used) for the content of one slot."""
    if not must_construct:
        yield "", 0
        if budget > 0:
            for j in jumps:
                yield j, 1
    if depth <= 0:
        return
    for name, tpl, nslots in constructs:
        # spine slot: None (leaf construct) or k (slot k holds a nested construct)
        for spine in [None] + list(range(nslots)):
            if spine is not None and depth <= 1:
                continue
            yield from _fill_slots(tpl, nslots, 0, spine, depth, level, budget, constructs, jumps, {})


def _fill_slots(tpl, nslots, k, spine, depth, level, budget, constructs, jumps, acc):
    if k == nslots:
        text = tpl
        for i in range(nslots):
            text = text.replace("{S%d}" % i, acc[i][0])
        text = text.replace("{L}", str(level))
        yield text, sum(a[1] for a in acc.values())
        return
    used = sum(a[1] for a in acc.values())
    if k == spine:
        gen = contents(depth - 1, level + 1, budget - used, constructs, jumps, must_construct=True)
    else:
        gen = contents(0, level + 1, budget - used, constructs, jumps)
    for text, u in gen:
        acc2 = dict(acc)
        acc2[k] = (_block(text), u)
        yield from _fill_slots(tpl, nslots, k + 1, spine, depth, level, budget, constructs, jumps, acc2)


def number(text):
    out = []
    n = 0
    for part in text.split("§"):
        out.append(part)
        out.append(str(n))
        n += 1
    out.pop()
    return "".join(out)


def top_shards(depth, quick):
    """Deterministic partition of the enumeration: (construct, spine slot, sub-construct residue, modulus)."""
    cons = [c for c in CONSTRUCTS if not quick or c[0] in QUICK_CONSTRUCTS]
    out = []
    for name, tpl, nslots in cons:
        for spine in [None] + list(range(nslots)):
            if spine is not None and depth <= 1:
                continue
            if spine is None or depth <= 2:
                out.append((name, spine, 0, 1))
            else:
                out.extend((name, spine, r, len(cons)) for r in range(len(cons)))
    return out


def programs(depth, max_jumps, quick, shard):
    cons = [c for c in CONSTRUCTS if not quick or c[0] in QUICK_CONSTRUCTS]
    jumps = QUICK_JUMPS if quick else JUMPS
    name, spine, res, mod = shard
    top = [c for c in cons if c[0] == name][0]
    tpl, nslots = top[1], top[2]

    def top_contents():
        if mod == 1:
            yield from _fill_slots(tpl, nslots, 0, spine, depth, 1, max_jumps, cons, jumps, {})
        else:
            # restrict the construct nested in the spine slot to one residue class
            sub = [c for i, c in enumerate(cons) if i % mod == res]
            yield from _fill_slots_sub(tpl, nslots, 0, spine, depth, 1, max_jumps, cons, jumps, {}, sub)

    for text, used in top_contents():
        body = _indent("t(§)\n" + text + "\nt(§)\nreturn t(§, 'end')")
        yield number("def f():\n" + body + "\nr = f()")


def _fill_slots_sub(tpl, nslots, k, spine, depth, level, budget, constructs, jumps, acc, sub):
    if k == nslots:
        yield from _fill_slots(tpl, nslots, k, spine, depth, level, budget, constructs, jumps, acc)
        return
    used = sum(a[1] for a in acc.values())
    if k == spine:
        gen = contents_sub(depth - 1, level + 1, budget - used, constructs, jumps, sub)
    else:
        gen = contents(0, level + 1, budget - used, constructs, jumps)
    for text, u in gen:
        acc2 = dict(acc)
        acc2[k] = (_block(text), u)
        yield from _fill_slots_sub(tpl, nslots, k + 1, spine, depth, level, budget, constructs, jumps, acc2, sub)


def contents_sub(depth, level, budget, constructs, jumps, sub):
    """contents(must_construct=True) restricted to the constructs in `sub` at this level."""
    for name, tpl, nslots in sub:
        for spine in [None] + list(range(nslots)):
            if spine is not None and depth <= 1:
                continue
            yield from _fill_slots(tpl, nslots, 0, spine, depth, level, budget, constructs, jumps, {})


def module_level(quick):
    """Constructs at module level (no function): jumps that are legal there."""
    cons = [c for c in CONSTRUCTS if c[0] != "def"]
    jumps = [j for j in JUMPS if not j.startswith("return")]
    for text, used in contents(2, 1, 1, cons, jumps, must_construct=True):
        yield number("t(§)\n" + text + "\nt(§)")
