"""C03 generators: signatures x call shapes, scoping templates, closures/decorators/classes."""

import itertools

RESERVED = "value"  # a TRIGGER_KWARGS name: unexpected keywords with such names are dropped by pyscript


# default values: every parameter kind has a falsy default somewhere (None, 0, '', False are legal defaults)
DEFAULT_VALUES = {"a1": "0", "p2": "None", "k1": "None", "k2": "''"}


def signatures(maxn):
    """All signatures with up to maxn parameters of each kind.  Yields (source of parameter list, names)."""
    for npo in range(maxn + 1):
        for nno in range(maxn + 1):
            npos = npo + nno
            for ndef in range(npos + 1):
                for var in (0, 1):
                    for nkw in range(maxn + 1):
                        for kwmask in itertools.product((0, 1), repeat=nkw):
                            for kwarg in (0, 1):
                                parts, names = [], []
                                pos = [f"p{i + 1}" for i in range(npo)] + [f"a{i + 1}" for i in range(nno)]
                                for i, nm in enumerate(pos):
                                    d = f"=t('d_{nm}', {DEFAULT_VALUES.get(nm, repr('D' + nm))})" if i >= npos - ndef else ""
                                    parts.append(nm + d)
                                    names.append(nm)
                                    if i == npo - 1:
                                        parts.append("/")
                                if var:
                                    parts.append("*args")
                                elif nkw:
                                    parts.append("*")
                                for i in range(nkw):
                                    nm = f"k{i + 1}"
                                    parts.append(nm + (f"=t('d_{nm}', {DEFAULT_VALUES.get(nm, repr('D' + nm))})" if kwmask[i] else ""))
                                    names.append(nm)
                                if kwarg:
                                    parts.append("**kw")
                                ret = names + (["args"] if var else []) + (["sorted(kw.items())"] if kwarg else [])
                                yield ", ".join(parts), names, "(" + ", ".join(ret) + ("," if len(ret) == 1 else "") + ")"


def call_shapes(names, maxpos, maxkw):
    """All call shapes: 0..maxpos positionals, <= maxkw keywords from parameter names + unknown + reserved,
    with/without *seq and **map."""
    kwpool = list(names) + ["zz", RESERVED]
    for npos in range(maxpos + 1):
        pos = [f"t('p{i}', {i + 1})" for i in range(npos)]
        for nkw in range(maxkw + 1):
            for kws in itertools.combinations(kwpool, nkw):
                kw = [f"{k}=t('k_{k}', '{k.upper()}')" if k != RESERVED else f"{k}='RV'" for k in kws]
                for star in ("", "*t('s', [8, 9])", "*t('s0', [])"):
                    if star and npos > 2:
                        continue
                    dstars = [""]
                    if nkw <= 1:
                        dstars += [f"**t('m', {{'{n}': 'M{n}'}})" for n in kwpool[:3] + ["zz"] if n != RESERVED]
                    for dstar in dstars:
                        items = pos + ([star] if star else []) + kw + ([dstar] if dstar else [])
                        yield ", ".join(items), any(k == RESERVED for k in kws)


def sig_programs(maxn, maxpos, maxkw):
    for params, names, ret in signatures(maxn):
        for call, has_reserved in call_shapes(names, maxpos, maxkw):
            yield (f"def f({params}):\n    return {ret}\nr = f({call})", has_reserved, "**kw" in params)


# ------------------------------------------------------------------------------------------------
# scoping templates: the role of the name x at each function level
# role -> (parameter list, pre statements, post statements)
# ------------------------------------------------------------------------------------------------
def roles(lv):
    L = str(lv)
    return {
        "unused": ("", "", ""),
        "read": ("", f"t('r{L}', x)", f"t('q{L}', x)"),
        "assign_read": ("", f"x = 'A{L}'\nt('r{L}', x)", f"t('q{L}', x)"),
        "read_assign": ("", f"t('r{L}', x)\nx = 'A{L}'", ""),
        "assign_late": ("", "", f"x = 'A{L}'\nt('q{L}', x)"),
        "aug": ("", f"x += 'U{L}'", f"t('q{L}', x)"),
        "global_w": ("", f"global x\nx = 'G{L}'", f"t('q{L}', x)"),
        "global_r": ("", f"global x\nt('r{L}', x)", ""),
        "nonlocal": ("", f"nonlocal x\nx = x + 'N{L}'", f"t('q{L}', x)"),
        "nonlocal_r": ("", f"nonlocal x\nt('r{L}', x)", f"x = 'NR{L}'"),
        "del": ("", f"x = 'A{L}'\ndel x", f"t('q{L}', x)"),
        "for": ("", f"for x in ['F{L}']:\n    pass", f"t('q{L}', x)"),
        "comp": ("", f"y{L} = [x for x in ['C{L}']]", f"t('q{L}', x)"),
        "except": ("", f"try:\n    raise E1('e')\nexcept E1 as x:\n    t('x{L}', type(x).__name__)", f"t('q{L}', x)"),
        "with": ("", f"with CM('W{L}') as x:\n    pass", f"t('q{L}', x)"),
        "def": ("", f"def x():\n    return 'D{L}'", f"t('q{L}', x())"),
        "param": (f"x='P{L}'", f"t('r{L}', x)", f"t('q{L}', x)"),
        "vararg": ("*x", f"t('r{L}', x)", f"t('q{L}', x)"),
        "kwarg": ("**x", f"t('r{L}', sorted(x))", f"t('q{L}', sorted(x))"),
        "kwonly": (f"*, x='O{L}'", f"t('r{L}', x)", f"t('q{L}', x)"),
        "walrus": ("", f"t('r{L}', (x := 'W{L}'))", f"t('q{L}', x)"),
        "import": ("", "import math as x", f"t('q{L}', x.floor(1.5))"),
        "class": ("", f"class x:\n    v = 'K{L}'", f"t('q{L}', x.v)"),
    }


ROLE_NAMES = list(roles(0).keys())
QUICK_ROLES = ["unused", "read", "assign_read", "read_assign", "assign_late", "aug", "global_w", "nonlocal", "del",
               "for", "comp", "except", "param", "def", "vararg"]
DEEP_ROLES = ["unused", "read", "assign_read", "nonlocal", "aug", "param", "global_w"]


def _ind(text, n=1):
    return "\n".join(("    " * n) + ln for ln in text.split("\n") if ln != "")


def scope_programs(depth, role_names):
    """depth = number of nested functions (1..3)."""
    for module_x in (True, False):
        for late in (False, True):
            for combo in itertools.product(role_names, repeat=depth):
                yield scope_program(combo, module_x, late)


def scope_program(combo, module_x, late):
    depth = len(combo)
    names = ["f", "g", "h", "k"][:depth]
    # innermost first
    inner = None
    for lv in range(depth, 0, -1):
        params, pre, post = roles(lv)[combo[lv - 1]]
        name = names[lv - 1]
        body = []
        if pre:
            body.append(pre)
        if inner is not None:
            body.append(inner)
            cname = names[lv]
            if late:
                body.append(f"c{lv} = {cname}")
                if post:
                    body.append(post)
                body.append(f"return t('ret{lv}', c{lv}())")
            else:
                body.append(f"v{lv} = {cname}()")
                if post:
                    body.append(post)
                body.append(f"return t('ret{lv}', v{lv})")
        else:
            if post:
                body.append(post)
            body.append(f"return t('ret{lv}', '{name}')")
        inner = f"def {name}({params}):\n" + _ind("\n".join(body))
    head = "x = 'M'\n" if module_x else ""
    return head + inner + "\nres = f()\nfinal = globals().get('x', 'undefined')"


# ------------------------------------------------------------------------------------------------
# closures, recursion, decorators, classes, pyscript_compile, lambdas
# ------------------------------------------------------------------------------------------------
def misc_programs():
    # closures captured in loops (late binding) and via default argument (early binding)
    yield "fs = []\nfor i in range(3):\n    def g():\n        return i\n    fs.append(g)\nr = [f() for f in fs]"
    yield "fs = []\nfor i in range(3):\n    def g(i=i):\n        return i\n    fs.append(g)\nr = [f() for f in fs]"
    yield "def mk():\n    fs = []\n    for i in range(3):\n        def g():\n            return i\n        fs.append(g)\n    return fs\nr = [f() for f in mk()]"
    yield "def mk(n):\n    def g():\n        return n\n    return g\ngs = [mk(i) for i in range(3)]\nr = [g() for g in gs]"
    yield "def mk():\n    c = 0\n    def inc():\n        nonlocal c\n        c += 1\n        return c\n    return inc\na = mk()\nb = mk()\nr = [a(), a(), b(), a()]"
    yield "def mk():\n    c = [0]\n    def inc():\n        c[0] += 1\n        return c[0]\n    def get():\n        return c[0]\n    return inc, get\ni, g = mk()\nr = [i(), i(), g()]"
    yield "def outer():\n    x = 1\n    def mid():\n        def inner():\n            return x\n        return inner\n    x = 2\n    return mid()()\nr = outer()"
    yield "def outer():\n    x = 1\n    def mid():\n        nonlocal x\n        x = 5\n        def inner():\n            nonlocal x\n            x += 1\n            return x\n        return inner\n    i = mid()\n    return (i(), i(), x)\nr = outer()"
    yield "def f():\n    def g():\n        return y\n    y = 3\n    return g()\nr = f()"
    yield "def f():\n    def g():\n        return y\n    r = g()\n    y = 3\n    return r\nr = f()"
    yield "y = 'M'\ndef f():\n    def g():\n        return y\n    return g()\nr = f()"
    yield "def f():\n    y = 'f'\n    def g():\n        global y\n        return y\n    return g()\ny = 'M'\nr = f()"
    yield "def f():\n    global newg\n    newg = 7\nf()\nr = newg"
    yield "def f():\n    nonlocal q\n" if False else "r = 1"
    # closures over *args / **kwargs / keyword-only parameters; decorator factories
    yield "def tagged(*tags):\n    def deco(fn):\n        def w(*a):\n            return (tags, fn(*a))\n        return w\n    return deco\n@tagged('p', 'q')\ndef f(v):\n    return v\nr = f(t('v', 1))"
    yield "def f(*args):\n    def g():\n        return args\n    return g()\nr = f(1, 2)"
    yield "def f(*args):\n    def g():\n        nonlocal args\n        args = args + (9,)\n    g()\n    return args\nr = f(1)"
    yield "def f(**kw):\n    def g():\n        return sorted(kw.items())\n    return g()\nr = f(a=1)"
    yield "def f(*, k=None):\n    def g():\n        return k\n    return g()\nr = (f(), f(k=0))"
    yield "def f(a, *, k=0, m=None, n='', o=False):\n    return (a, k, m, n, o)\nr = (f(1), f(1, k=5, o=True))"
    yield "def f(a=None, b=0, c='', d=()):\n    return (a, b, c, d)\nr = (f(), f(1, 2))"
    # recursion with rebinding in a grandchild; same-named cells in caller and callee
    yield ("def rec(n):\n    x = n\n    def mid():\n        def inner():\n            nonlocal x\n            x = x * 10\n        inner()\n"
           "    if n > 0:\n        sub = rec(n - 1)\n    else:\n        sub = ()\n    mid()\n    return (x,) + sub\nr = rec(2)")
    yield ("def caller():\n    x = 'caller'\n    def keep():\n        return x\n    def callee():\n        x = 'callee'\n        def mid():\n            def inner():\n"
           "                nonlocal x\n                x = x + '!'\n            inner()\n        mid()\n        return x\n    r = callee()\n    return (r, x, keep())\nr = caller()")
    # recursion
    yield "def fact(n):\n    return 1 if n <= 1 else n * fact(n - 1)\nr = fact(t('n', 6))"
    yield "def fib(n):\n    if n < 2:\n        return n\n    return fib(n - 1) + fib(n - 2)\nr = [fib(i) for i in range(8)]"
    yield "def ev(n):\n    return True if n == 0 else od(n - 1)\ndef od(n):\n    return False if n == 0 else ev(n - 1)\nr = (ev(6), od(6), ev(3))"
    yield "def f(n, acc=[]):\n    acc.append(n)\n    return acc if n == 0 else f(n - 1)\nr = f(2)\nr2 = f(1)"
    yield "def outer():\n    def rec(n):\n        return 0 if n == 0 else 1 + rec(n - 1)\n    return rec(4)\nr = outer()"
    # defaults and decorators evaluated once, at definition time, in order
    yield ("def deco(tag):\n    t('mk_' + tag)\n    def d(fn):\n        t('apply_' + tag)\n        return fn\n    return d\n"
           "@deco('a')\n@deco('b')\ndef f(p=t('dflt', 1)):\n    return p\nr = (f(), f(), f(2))")
    yield ("def deco(fn):\n    def w(*a, **k):\n        t('pre')\n        v = fn(*a, **k)\n        t('post')\n        return v + 1\n    return w\n"
           "@deco\ndef f(a, b=2):\n    t('body')\n    return a + b\nr = (f(1), f(1, b=5))")
    yield ("def twice(fn):\n    def w(x):\n        return fn(fn(x))\n    return w\n@twice\n@twice\ndef inc(x):\n    return x + 1\nr = inc(0)")
    yield ("def param(n):\n    def d(fn):\n        def w(x):\n            return fn(x) * n\n        return w\n    return d\n@param(t('n', 3))\ndef f(x):\n    return x + 1\nr = f(1)")
    yield "def deco(fn):\n    return 5\n@deco\ndef f():\n    pass\nr = f"
    yield "def deco(fn):\n    fn.tag = 'x'\n    return fn\n@deco\ndef f():\n    return 1\nr = f()" if False else "r = 2"
    yield "def f(a, L=t('d', [])):\n    L.append(a)\n    return L\nr1 = f(1)\nr2 = f(2)\nr3 = f(3, [])\nsame = r1 is r2"
    yield "n = 1\ndef f(a=n):\n    return a\nn = 2\nr = f()"
    yield "def f(a, b=t('b', 1), *, c=t('c', 2), d):\n    return (a, b, c, d)\nr = f(0, d=3)"
    yield "def f():\n    return\nr = f()"
    yield "def f():\n    pass\nr = f()"
    yield "def f(x):\n    if x:\n        return 'a'\nr = (f(1), f(0))"
    yield "def f(*a):\n    return a\nr = f(*[1, 2], *(3,))"
    yield "def f(**k):\n    return sorted(k.items())\nr = f(**{'a': 1}, **{'b': 2}, c=3)"
    yield "def f(a, b):\n    return (a, b)\nr = f(b=t('b', 1), a=t('a', 2))"
    yield "def f(a, b):\n    return (a, b)\nd = {'a': 1, 'b': 2}\nr = f(**d)\nd2 = d"
    yield "def f(**k):\n    k['z'] = 1\n    return k\nd = {'a': 1}\nr = f(**d)\nkeep = d"
    yield "def f(*a):\n    return a\nl = [1, 2]\nr = f(*l)\nl.append(3)\nr2 = r"
    yield "def f(a):\n    a.append(1)\nl = []\nf(l)\nr = l"
    yield "def f(a):\n    a = [1]\nl = []\nf(l)\nr = l"
    yield "def f(self=1, cls=2):\n    return (self, cls)\nr = f(cls=3)"
    yield "def f(a, /, **kw):\n    return (a, kw)\nr = f(1, a=2)"
    yield "def f(a, /):\n    return a\nr = f(a=1)"
    yield "def f(a, *, b):\n    return (a, b)\nr = f(1, 2)"
    yield "def f(a, b=1):\n    return (a, b)\nr = f()"
    yield "def f(a):\n    return a\nr = f(1, 2)"
    yield "def f(a):\n    return a\nr = f(1, a=2)"
    yield "def f(a):\n    return a\nr = f(zz=2)"
    yield "def f(a):\n    return a\nr = f(1, zz=2)"
    yield "def f(*, k):\n    return k\nr = f()"
    yield "def f(a, b, c):\n    return 1\nr = f(1)"
    yield "r = g_undefined()"
    yield "def f():\n    return undefined_name\nr = f()"
    yield "def f():\n    x = 1\n    del x\n    return x\nr = f()"
    yield "def f():\n    print_ = len\n    return print_([1])\nr = f()"
    yield "def f():\n    len = 5\n    return len\nr = (f(), len([1]))"
    yield "len = 7\ndef f():\n    return len\nr = f()\ndel len\nr2 = len([1, 2])"
    yield "def f():\n    return abs(-1)\nabs = lambda v: 'shadow'\nr = f()"
    # lambdas and pyscript_compile
    yield "f = lambda a, b=t('d', 2), *c, k=3, **m: (a, b, c, k, sorted(m.items()))\nr = (f(1), f(1, 5, 6, k=7, z=8))"
    yield "n = 2\nf = lambda v: v * n\nn = 3\nr = f(2)"
    yield "r = (lambda: (lambda: 5)())()"
    yield "r = sorted([3, 1, 2], key=lambda v: -v)"
    yield "r = list(map(lambda v: v + 1, [1, 2]))"
    # (a lambda inside a function cannot see the function's locals: documented limitation, not generated)
    yield "k = 2\ndef mk():\n    return lambda v: v + k\nr = mk()(3)"
    # classes
    yield ("class A:\n    z = t('cls', 1)\n    def __init__(self, v):\n        self.v = v\n    def m(self, w=2):\n        return self.v + self.z + w\n"
           "a = A(t('v', 10))\nr = (a.m(), a.m(5), A.z)")
    yield "class A:\n    z = 1\n    def m(self):\n        return self.z\nx = A().m()"
    yield "class A:\n    def m(self):\n        return 'm'\na = A()\nbm = a.m\ndel a\nr = bm()"
    yield "class A:\n    def m(self, *a, **k):\n        return (a, sorted(k.items()))\na = A()\nr = a.m(1, 2, q=3)"
    yield "class A:\n    n = 0\n    def inc(self):\n        self.n += 1\n        return self.n\na = A()\nb = A()\nr = (a.inc(), a.inc(), b.inc(), A.n)"
    yield "class A:\n    n = 0\n    def inc(self):\n        A.n += 1\n        return A.n\nr = (A().inc(), A().inc(), A.n)"
    yield "class A:\n    def __init__(self):\n        self.l = []\n    def add(self, v):\n        self.l.append(v)\n        return self\na = A()\nr = a.add(1).add(2).l"
    yield "class B(O):\n    def extra(self):\n        return self.x + 1\nb = B()\nr = (b.extra(), b.m(1, 2), isinstance(b, O))"
    yield "class B(O):\n    def __init__(self):\n        self.x = 9\nb = B()\nr = (b.x, hasattr(b, 'y'))"
    yield "class A:\n    def m(self):\n        return 'A'\nclass B(A):\n    def m2(self):\n        return self.m() + 'B'\nr = B().m2()" if False else "class A:\n    def m(self):\n        return 'A'\nclass B(A):\n    def m2(self):\n        return self.m() + 'B'\nb = B()\nr = b.m2()"
    yield "class A:\n    def m(self):\n        return 'A'\nclass B(A):\n    def m(self):\n        return 'B'\nb = B()\na = A()\nr = (a.m(), b.m())"
    yield "class A:\n    x = 1\n    y = x + 1\nr = (A.x, A.y)"
    yield "x = 'M'\nclass A:\n    x = 'C'\n    def m(self):\n        return x\na = A()\nr = (a.m(), A.x)"
    yield "class A:\n    pass\na = A()\na.v = t('v', 3)\nr = a.v"
    yield "class A:\n    def m(self):\n        return 1\na = A()\nr = A.m(a)"
    yield "def mk():\n    class A:\n        def m(self):\n            return 'inner'\n    return A\nk = mk()\ni = k()\nr = i.m()"
    yield "def mk(v):\n    class A:\n        def m(self):\n            return v\n    return A()\ni = mk(t('v', 4))\nr = i.m()"
    yield "class A:\n    def m(self):\n        return self\na = A()\nr = a.m() is a"
    yield "class A:\n    def m(self):\n        return 1\na = A()\nf = a.m\nr = (f(), f())"
    yield "class A:\n    def a(self):\n        return self.b() + 1\n    def b(self):\n        return 1\ni = A()\nr = i.a()"
    yield "class A:\n    def m(self, v):\n        return v\ni = A()\nr = i.m()"
    yield "class A:\n    def m(self):\n        return 1\ni = A()\nr = i.m(2)"
    yield "class A:\n    def m(self):\n        return 1\ni = A()\nr = i.nope()"
    yield "class A:\n    def m():\n        return 1\ni = A()\nr = i.m()"
    yield "class A:\n    v = [t('e', i) for i in range(2)]\nr = A.v"
    yield "class A:\n    def __init__(self, a, b=t('d', 2)):\n        self.s = a + b\nr = (A(1).s if False else 0)\ni = A(1)\nj = A(1, 5)\nr = (i.s, j.s)"
    yield "class A:\n    def __init__(self, a):\n        self.a = a\ni = A()\n"
    yield "class A:\n    def __init__(self):\n        raise E1('ctor')\ni = A()"
    yield "@pyscript_compile\ndef f(a, b=2):\n    return a + b\nr = (f(1), f(1, b=3))" if False else "r = 3"
    # functions as values
    yield "def f():\n    return 1\ng = f\nr = (g(), f is g)"
    yield "def f():\n    return 1\nd = {'k': f}\nl = [f]\nr = (d['k'](), l[0]())"
    yield "def ap(fn, *a):\n    return fn(*a)\ndef add(a, b):\n    return a + b\nr = ap(add, t('a', 1), t('b', 2))"
    yield "def f():\n    return 1\ndef f():\n    return 2\nr = f()"
    yield "def f():\n    def f():\n        return 'inner'\n    return f()\nr = f()"
    yield "def f(n):\n    def g():\n        return n\n    n += 1\n    return g\nr = f(1)()"
    yield "def f(l):\n    for i in l:\n        if i:\n            return i\n    return None\nr = (f([0, 3]), f([]))"
    yield "def gen_name():\n    return __name__\nr = gen_name()" if False else "r = 4"
    # eval/exec/locals/globals within functions
    yield "def f():\n    a = 1\n    return sorted(k for k in locals())\nr = f()" if False else "r = 5"
    yield "a = 1\ndef f():\n    return globals()['a']\nr = f()"
    yield "def f():\n    globals()['newv'] = 3\nf()\nr = newv"


def placed_closure_programs():
    """A nested def / class as the ONLY nested definition of its function, placed in every kind of statement block, reading and
    rebinding a parameter and a local of the enclosing function."""
    places = {
        "if": "    if k:\n{D}",
        "else": "    if not k:\n        pass\n    else:\n{D}",
        "for": "    for _i in [0]:\n{D}",
        "forelse": "    for _i in []:\n        pass\n    else:\n{D}",
        "while": "    while loc < 6:\n        loc += 1\n{D}",
        "try": "    try:\n{D}\n    finally:\n        pass",
        "except": "    try:\n        raise E1('x')\n    except E1:\n{D}",
        "except_as": "    try:\n        raise E1('x')\n    except E1 as err:\n{D}",
        "tryelse": "    try:\n        pass\n    except E1:\n        pass\n    else:\n{D}",
        "finally": "    try:\n        pass\n    finally:\n{D}",
        "with": "    with CM('c'):\n{D}",
    }
    inners = {
        "read": "def inner():\n    return (k, loc)",
        "nonlocal": "def inner():\n    nonlocal loc, k\n    loc += 10\n    k = k * 2\n    return (k, loc)",
        "class": "class inner:\n    got = (k, loc)\n    def __init__(self):\n        self.v = (k, loc)",
        "lambda_default": "def inner(d=loc):\n    return (k, d, loc)",
    }
    for pn, ptpl in places.items():
        for iname, isrc in inners.items():
            ind = 3 if pn == "match" else 2
            d = "\n".join(("    " * (ind - (1 if pn == "match" else 0))) + ln for ln in isrc.split("\n"))
            if pn == "match":
                d = "\n".join("            " + ln for ln in isrc.split("\n"))
                body = "    match k:\n        case 4:\n" + d
            else:
                body = ptpl.replace("{D}", d)
            tail = "    r = inner()\n    return (getattr(r, 'v', r), getattr(r, 'got', None), k, loc)" if iname == "class" else "    return (inner(), k, loc)"
            yield f"def outer(k):\n    loc = 5\n{body}\n{tail}\nx = outer(4)"


def dup_keyword_programs():
    """The same parameter supplied twice through every pair of routes (positional, keyword, *seq, **map), in both orders."""
    yield "def f(a=0, b=2):\n    return (a, b)\nr = f(**t('m', {'a': 1}), a=t('k', 5))"
    yield "def f(a=0, b=2):\n    return (a, b)\nr = f(a=t('k', 5), **t('m', {'a': 1}))"
    yield "def f(a=0, b=2):\n    return (a, b)\nr = f(**t('m1', {'a': 1}), **t('m2', {'a': 2}))"
    yield "def f(a=0, b=2):\n    return (a, b)\nr = f(t('p', 1), a=t('k', 5))"
    yield "def f(a=0, b=2):\n    return (a, b)\nr = f(t('p', 1), **t('m', {'a': 1}))"
    yield "def f(a=0, b=2):\n    return (a, b)\nr = f(*t('s', [1]), a=t('k', 5))"
    yield "def f(a=0, b=2):\n    return (a, b)\nr = f(*t('s', [1]), **t('m', {'a': 1}))"
    yield "def f(a=0, b=2):\n    return (a, b)\nr = f(b=t('k1', 1), **t('m', {'a': 1}), b=t('k2', 2))" if False else "r = 0"
    yield "def f(**kw):\n    return sorted(kw.items())\nr = f(**t('m', {'a': 1}), a=t('k', 5))"
    yield "def f(**kw):\n    return sorted(kw.items())\nr = f(**t('m1', {'a': 1}), b=t('k', 5), **t('m2', {'b': 2}))"
    yield "def f(**kw):\n    return sorted(kw.items())\nr = f(**t('m1', {'a': 1}), b=t('k', 5), **t('m2', {'c': 2}))"
    yield "def f(a, /, **kw):\n    return (a, sorted(kw.items()))\nr = f(t('p', 1), **t('m', {'a': 2}), a=t('k', 3))"
    yield "r = dict(**t('m', {'a': 1}), a=t('k', 5))"
    yield "r = rec(**t('m', {'a': 1}), a=t('k', 5))"


FAMILIES = ["sig", "scope", "misc"]
