"""C01 generators: straight-line programs over every expression / assignment node type.

Every family is a deterministic generator of source strings, ordered simplest-first.  A program is
kept only if CPython's compiler accepts it (checked by the driver).  `t(tag, value)` is the tracer.
"""

import itertools

# one or more representatives per kind and boundary (source literals)
VALS_FULL = [
    "0", "1", "2", "-1", "7", "0.5", "2.0", "True", "False", "None", "''", "'ab'", "b'a'",
    "[]", "[1, 2]", "()", "(1, 2)", "{}", "{'a': 1}", "set()", "{1}", "O()",
]
VALS_KIND = ["0", "2", "0.5", "True", "None", "'ab'", "b'a'", "[1, 2]", "(1, 2)", "{'a': 1}", "{1}", "O()"]
TRUTH = ["0", "1", "''", "'ab'", "[]", "None"]
BINOPS = ["+", "-", "*", "/", "%", "**", "<<", ">>", "|", "^", "&", "//", "@"]
UNOPS = ["not ", "~", "+", "-"]
CMPOPS = ["==", "!=", "<", "<=", ">", ">=", "is", "is not", "in", "not in"]


def T(tag, v):
    return f"t({tag!r}, {v})"


def fam_binop(full):
    vals = VALS_FULL if full else VALS_KIND
    for op in BINOPS:
        for a in vals:
            for b in vals:
                yield f"x = {T('a', a)} {op} {T('b', b)}"


def fam_unop(full):
    for op in UNOPS:
        for a in VALS_FULL:
            yield f"x = {op}{T('a', a)}"
    for a in VALS_FULL:
        yield f"x = not not {T('a', a)}"
        yield f"x = - - {T('a', a)}"


# identity of equal immutable literals is an implementation detail (constant merging): `is` only on these
IS_SAFE = ["None", "True", "False", "0", "1", "[]", "{}", "[1, 2]", "O()", "''"]


def fam_compare(full):
    vals = VALS_FULL if full else VALS_KIND
    for op in CMPOPS:
        vs = IS_SAFE if op in ("is", "is not") else vals
        for a in vs:
            for b in vs:
                yield f"x = {T('a', a)} {op} {T('b', b)}"
    yield "a = [1]\nx = t('a', a) is t('b', a)"
    yield "a = [1]\nx = t('a', a) is not t('b', a)"


def fam_chain(full):
    pool = ["0", "1", "2", "'ab'", "None", "[1, 2]"] if full else ["0", "1", "2", "[1, 2]"]
    ops = CMPOPS if full else ["==", "<", ">=", "is not", "in"]
    for o1 in ops:
        for o2 in ops:
            for a, b, c in itertools.product(pool, repeat=3):
                if ("is" in o1 and not (a in IS_SAFE and b in IS_SAFE)) or ("is" in o2 and not (b in IS_SAFE and c in IS_SAFE)):
                    continue
                yield f"x = {T('a', a)} {o1} {T('b', b)} {o2} {T('c', c)}"
    # four operands: early exit positions
    for o in ["<", "==", "!="]:
        for a, b, c, d in itertools.product(["0", "1", "2"], repeat=4):
            yield f"x = {T('a', a)} {o} {T('b', b)} {o} {T('c', c)} {o} {T('d', d)}"


def fam_boolop(full):
    for op in ("and", "or"):
        for n in (2, 3):
            for vs in itertools.product(TRUTH, repeat=n):
                yield "x = " + f" {op} ".join(T("abc"[i], v) for i, v in enumerate(vs))
    for vs in itertools.product(["0", "1", "''"], repeat=3):
        a, b, c = (T("abc"[i], v) for i, v in enumerate(vs))
        yield f"x = {a} and {b} or {c}"
        yield f"x = {a} or {b} and {c}"
        yield f"x = not {a} or not {b} and {c}"
        yield f"x = ({a} or {b}) and {c}"
    for c in TRUTH:
        for a in ("1", "'ab'"):
            for b in ("2", "None"):
                yield f"x = {T('b', a)} if {T('c', c)} else {T('e', b)}"
    for c1, c2 in itertools.product(["0", "1"], repeat=2):
        yield f"x = {T('a', 1)} if {T('c1', c1)} else {T('b', 2)} if {T('c2', c2)} else {T('d', 3)}"


def fam_subscript(full):
    conts = ["[1, 2, 3]", "(1, 2, 3)", "'abc'", "{'a': 1, 0: 2}", "b'ab'", "5", "None", "O()"]
    idx = ["0", "1", "-1", "3", "-4", "'a'", "'z'", "None", "1.0", "True", "(0,)", "[0]"]
    for c in conts:
        for i in idx:
            yield f"x = {T('c', c)}[{T('i', i)}]"
    parts = ["", "-1", "0", "1", "2"]
    for c in conts[:5]:
        for lo, hi in itertools.product(parts, repeat=2):
            lo_s = T("lo", lo) if lo else ""
            hi_s = T("hi", hi) if hi else ""
            yield f"x = {T('c', c)}[{lo_s}:{hi_s}]"
            for st in (parts + ["3"]) if full or c == "[1, 2, 3]" else ["-1"]:
                st_s = T("st", st) if st else ""
                yield f"x = {T('c', c)}[{lo_s}:{hi_s}:{st_s}]"
    yield "x = [1, 2, 3][t('lo', 'a'):]"
    yield "x = {'a': 1}[t('lo', 0):1]"
    yield "d = {(0, 1): 'p'}\nx = d[t('a', 0), t('b', 1)]"
    yield "x = [[1, 2], [3, 4]][t('a', 1)][t('b', 0)]"
    yield "x = O().y[t('i', 0)]"
    yield "x = O().x"
    yield "x = O().nope"
    yield "x = t('o', O()).cx"
    yield "x = t('s', 'ab').upper()"
    yield "x = t('s', 'a,b').split(t('sep', ','))"


CALL_ITEMS = [
    "t('p1', 1)", "t('p2', 2)", "*t('s1', [3, 4])", "*t('s0', [])", "*t('sbad', 5)",
    "a=t('ka', 5)", "b=t('kb', 6)", "**t('da', {'a': 7})", "**t('dc', {'c': 8})", "**t('dbad', 5)",
    "**t('dint', {1: 2})",
]


def fam_call(full):
    n = 4 if full else 3
    for k in range(0, n + 1):
        for items in itertools.product(CALL_ITEMS, repeat=k):
            yield f"x = rec({', '.join(items)})"
    yield "x = t('f', rec)(t('a', 1))"
    yield "x = t('f', 5)(t('a', 1))"
    yield "x = t('f', None)()"
    yield "x = O().m(t('a', 1), k=t('b', 2))"
    yield "x = O().m(*t('a', [1, 2]), **t('b', {'z': 2}))"
    yield "x = rec(rec(t('a', 1)), k=rec(t('b', 2)))"
    yield "x = len(t('a', [1, 2]))"
    yield "x = max(t('a', 1), t('b', 2), key=t('k', None))"
    yield "x = sorted(t('a', [3, 1, 2]), reverse=t('r', True))"
    yield "x = int(t('a', '12'), base=t('b', 3))"
    yield "x = dict(a=t('a', 1), **t('d', {'b': 2}))"
    yield "x = dict(a=t('a', 1), **t('d', {'a': 2}))"
    yield "x = (lambda q, r=t('d', 2): (q, r))(t('a', 1))"
    yield "x = (lambda *a, **k: (a, k))(t('a', 1), *t('s', [2]), z=t('z', 3), **t('d', {'y': 4}))"
    yield "x = (lambda q: q)(q=t('a', 1), **t('d', {'q': 2}))"


def fam_display(full):
    elts = ["t('a', 1)", "t('b', 2)", "*t('s', [3, 4])", "*t('tu', (5,))", "*t('bad', 6)", "*t('st', 'xy')"]
    for k in range(0, 4):
        for items in itertools.product(elts, repeat=k):
            body = ", ".join(items)
            yield f"x = [{body}]"
            if k:
                yield f"x = ({body},)"
                yield "x = {" + body + "}"
    ditems = ["t('k1', 'a'): t('v1', 1)", "t('k2', 'b'): t('v2', 2)", "t('k1b', 'a'): t('v3', 3)",
              "**t('d1', {'a': 9})", "**t('dbad', 4)", "t('kbad', []): t('v4', 4)", "**t('d2', {1: 2})"]
    for k in range(0, 4):
        for items in itertools.product(ditems, repeat=k):
            yield "x = {" + ", ".join(items) + "}"
    yield "x = {t('a', [1])[0], t('b', 1)}"
    yield "x = {t('a', [])}"
    yield "x = [t('a', 1), [t('b', 2), (t('c', 3), {t('d', 4): t('e', 5)})]]"


def fam_comp(full):
    iters = ["t('it', [1, 2, 3])", "t('it', (1, 2))", "t('it', 'ab')", "t('it', [])", "t('it', 5)", "t('it', {'k': 1})",
             "range(t('n', 3))"]
    elts = ["v", "t('e', v)", "v * 2", "(v, v)", "t('e', 1) / 0"]
    conds = ["", " if t('c', v)", " if v != 2", " if t('c1', True) if t('c2', v)"]
    for it in iters:
        for e in elts:
            for c in conds:
                yield f"x = [{e} for v in {it}{c}]"
                yield "x = {" + f"{e} for v in {it}{c}" + "}"
                yield "x = {" + f"t('k', v): {e} for v in {it}{c}" + "}"
    # two generators, tuple targets, dependent inner iterable
    yield "x = [(a, b) for a in t('i1', [1, 2]) for b in t('i2', [a, 3])]"
    yield "x = [(a, b) for a in t('i1', [1, 2]) if t('c', a) for b in t('i2', 'xy') if t('d', b)]"
    yield "x = [a + b for (a, b) in t('i', [(1, 2), (3, 4)])]"
    yield "x = [a for a, *b in t('i', [(1, 2, 3), (4,)])]"
    yield "x = [b for a, *b in t('i', [(1, 2, 3), (4,)])]"
    yield "x = {a: b for a, b in t('i', [(1, 2), (1, 3)])}"
    yield "x = {a for a in t('i', [1, 1, 2])}"
    yield "x = [[t('e', (a, b)) for b in t('inner', [1, 2])] for a in t('outer', [3, 4])]"
    # scope: loop variable does not leak, outer variable restored
    yield "v = 'outer'\nx = [v for v in t('i', [1, 2])]\ny = v"
    yield "x = [v for v in t('i', [1, 2])]\ny = 'v' in globals()"
    yield "v = 'outer'\nx = [v for v in t('i', [])]\ny = v"
    yield "v = 'outer'\nx = {v: 1 for v in t('i', [1])}\ny = v"
    yield "v = 'outer'\nx = {v for v in t('i', [1])}\ny = v"
    yield "v = 9\ntry:\n    x = [1 / (v - 2) for v in t('i', [1, 2, 3])]\nexcept ZeroDivisionError:\n    pass\ny = v"
    yield "a = 'A'\nb = 'B'\nx = [(a, b) for a, b in t('i', [(1, 2)])]\ny = (a, b)"
    yield "w = 5\nx = [v + w for v in t('i', [1, 2])]"
    yield "x = [v for v in t('i', [1, 2, 3]) if (w := t('w', v)) > 1]\ny = w"
    yield "x = [(w := v) for v in t('i', [1, 2])]\ny = w"
    yield "x = [q for q in t('i', [1, 2])] + [q for q in t('j', [3])]"
    yield "x = sum([v for v in t('i', [1, 2])])"
    # the outermost iterable is evaluated in the enclosing scope, where the loop variable's name may mean something else
    for open_, close in (("[", "]"), ("{", "}")):
        yield f"v = [3, 1, 2]\nx = {open_}v * 2 for v in v{close}\ny = v"
        yield f"v = 3\nx = {open_}v for v in range(v){close}\ny = v"
        yield f"v = [[1, 2], [3]]\nx = {open_}w for v in v for w in v{close}\ny = v"
        yield f"v = [1, 2]\nx = {open_}(v, w) for w in v for v in t('j', 'ab'){close}\ny = v"
    yield "v = [3, 1]\nx = {v: v + 1 for v in v}\ny = v"
    yield "def f():\n    v = [3, 1, 2]\n    return [v * 2 for v in v], v\nx = f()"
    yield "x = [v for v in v]" 
    yield "x = list(v for v in [1, 2])" if False else "x = [v for v in [1, 2]][t('i', 0)]"


def fam_fstring(full):
    vals = ["1", "0.5", "'ab'", "None", "[1]", "True", "O()", "b'a'", "'é'"]
    convs = ["", "!r", "!s", "!a"]
    specs = ["", ":5", ":>4", ":.2f", ":d", ":{t('w', 6)}", ":{t('w', 4)}.{t('p', 1)}f", ":x", ":s"]
    for v in vals:
        for c in convs:
            for s in specs:
                yield "x = f\"{t('v', " + v + ")" + c + s + "}\""
    yield "x = f\"a{t('a', 1)}b{t('b', 2)!r}c{{}}\""
    yield "x = f'{t(\"a\", 1)}' f'{t(\"b\", 2)}' 'lit'"
    yield "x = f\"{t('a', 1) + t('b', 2)}\""
    yield "x = f\"{t('a', 'x')!r:>{t('w', 6)}}\""
    yield "x = f'{t(\"a\", 3)=}'"
    yield "x = f'{t(\"a\", \"q\")=!s}'"
    yield "x = f''"
    yield "x = f\"{t('a', 1)}{t('b', 1 / 0)}\""
    yield "x = f\"{{{t('a', 1)}}}\""
    yield "x = f\"{t('d', {'k': 1})['k']}\""


def fam_named(full):
    yield "x = (y := t('a', 5))"
    yield "x = [y := t('a', 5), y ** 2]"
    yield "x = (y := t('a', 1)) + (y := t('b', 2)) + y"
    yield "x = t('p', (y := 3)) if (z := t('c', 0)) else t('q', (y := 4))\nw = (y, z)"
    yield "x = rec(a := t('a', 1), b=(c := t('c', 2)))\nw = (a, c)"
    yield "x = {(k := t('k', 'a')): (v := t('v', 1))}\nw = (k, v)"
    yield "x = [1, 2, 3][(i := t('i', 1)):]\nw = i"
    yield "x = (y := t('a', 0)) and (z := t('b', 1))\nw = y"
    yield "x = (y := t('a', 0)) or (z := t('b', 1))\nw = (y, z)"
    yield "x = f\"{(y := t('a', 2))}\"\nw = y"
    yield "y = 1\nx = (y := y + t('a', 1))"
    yield "x = (t('l', 1) < (y := t('m', 2)) < t('r', 3))\nw = y"
    yield "x = not (y := t('a', []))\nw = y"
    yield "x = -(y := t('a', 2))\nw = y"
    yield "x = t('s', 'abc')[(y := t('a', 1))]\nw = y"


ASSIGN_TARGETS = [
    ("a", 1), ("a, b", 2), ("(a, b)", 2), ("[a, b]", 2), ("a, (b, c)", 2), ("a, *b", 1), ("*a, b", 1),
    ("a, *b, c", 2), ("[a, *b]", 1), ("a, [b, *c]", 2), ("a,", 1), ("(a, b), c", 2), ("*a,", 0),
]
ASSIGN_RHS = ["[1, 2]", "[1]", "[1, 2, 3]", "[]", "(1, (2, 3))", "[1, [2, 3, 4]]", "5", "'ab'", "None", "{'k': 1, 'l': 2}",
              "[(1, 2), 3]", "(1,)", "range(2)", "{7, 8}", "[[1, 2]]"]


def fam_assign(full):
    for tg, _ in ASSIGN_TARGETS:
        for rhs in ASSIGN_RHS:
            yield f"{tg} = {T('r', rhs)}"
    yield "a = b = t('r', [])\nw = a is b"
    yield "a = b, c = t('r', [1, 2])"
    yield "a, b = c = t('r', (1, 2))"
    yield "a = [0, 0]\ni = 0\ni, a[i] = t('r', (1, 2))"
    yield "a = [0, 0]\na[t('i', 0)], a[t('j', 1)] = t('p', 5), t('q', 6)"
    yield "a = [0, 0]\na[t('i', 0)] = a[t('j', 1)] = t('r', 7)"
    yield "a = [0, 1, 2, 3]\na[t('lo', 1):t('hi', 3)] = t('r', [9])"
    yield "a = [0, 1, 2, 3]\na[::t('st', 2)] = t('r', [8, 9])"
    yield "a = [0, 1, 2, 3]\na[::2] = t('r', [8])"
    yield "d = {}\nd[t('k', 'a')] = t('v', 1)\nd[t('k', 'a')] = t('v', 2)"
    yield "d = {}\nd[t('k', [])] = 1"
    yield "a = (1, 2)\na[0] = t('r', 1)"
    yield "o = O()\no.x = t('r', 5)\no.z = t('s', 6)"
    yield "o = O()\nt('o', o).x = t('r', 5)"
    yield "o = O()\no.y[t('i', 0)] = t('r', 5)"
    yield "o = O()\no.x, o.z = t('r', (1, 2))"
    yield "o = O()\no.y, (a, o.z) = t('r', (1, (2, 3)))"
    yield "x = 1\nx = t('a', x + 1)\nx = t('b', x + 1)"
    yield "a = 1\nb = 2\na, b = b, a"
    yield "a = [1, 2]\na[0], a[1] = a[1], a[0]"
    yield "a: int = t('r', 1)"
    yield "a: t('ann', int) = t('r', 1)"
    yield "a: int"
    yield "a: int\nx = 'a' in globals()"
    yield "o = O()\no.x: int = t('r', 3)"
    yield "a = [1]\na[t('i', 0)]: int = t('r', 3)"
    yield "x = y = z = t('r', 0)"
    yield "x = 1; y = x; x = 2"
    yield "a, b = t('a', 1), t('b', 2)"
    yield "for_ = t('a', 1)\nx = for_"
    yield "a, b = {'p': 1, 'q': 2}.items()"
    yield "(a, b), (c, d) = t('r', [(1, 2), (3, 4)])"
    yield "[a, [b, c]] = t('r', [1, [2, 3]])"
    yield "[a, b] = t('r', 1), t('s', 2)"
    yield "a, *[b, c] = t('r', [1, 2, 3])"
    yield "a, *(b, c) = t('r', [1, 2])"
    yield "a, *o_y = t('r', [1, 2, 3])"
    yield "o = O()\na, *o.y = t('r', [1, 2, 3])"
    yield "l = [0]\na, *l[0] = t('r', [1, 2, 3])"


AUG_OPS = ["+", "-", "*", "/", "%", "**", "<<", ">>", "|", "^", "&", "//", "@"]
AUG_VALS = ["3", "2.0", "'ab'", "[1]", "(1,)", "{1}", "{'a': 1}", "True", "None", "b'a'"]


def fam_augassign(full):
    rhs = AUG_VALS if full else ["3", "'ab'", "[1]", "{1}", "None"]
    for op in AUG_OPS:
        for a in AUG_VALS:
            for b in rhs:
                yield f"a = {a}\na {op}= {T('r', b)}"
    for op in AUG_OPS:
        for a in ["3", "[1]", "'ab'", "{1}"]:
            for b in ["2", "[2]", "{2}"]:
                yield f"l = [{a}, 0]\nl[t('i', 0)] {op}= {T('r', b)}"
                yield f"d = {{'k': {a}}}\nd[t('k', 'k')] {op}= {T('r', b)}"
                yield f"o = O()\no.x = {a}\no.x {op}= {T('r', b)}"
                yield f"o = O()\no.x = {a}\nt('o', o).x {op}= {T('r', b)}"
                yield f"o = O()\no.y = [{a}]\nt('o', o).y[t('i', 0)] {op}= {T('r', b)}"
    # aliasing: in-place semantics for mutable targets
    yield "a = b = []\na += t('r', [1])"
    yield "a = b = [1]\na *= t('r', 2)"
    yield "a = b = {1}\na |= t('r', {2})"
    yield "a = b = {1, 2}\na &= t('r', {2})"
    yield "a = b = {1, 2}\na -= t('r', {2})"
    yield "a = b = {1, 2}\na ^= t('r', {2, 3})"
    yield "a = b = {'k': 1}\na |= t('r', {'l': 2})"
    yield "a = b = (1,)\na += t('r', (2,))"
    yield "a = b = 'x'\na += t('r', 'y')"
    yield "a = b = []\na += t('r', 'xy')"
    yield "a = b = []\na += t('r', (1, 2))"
    yield "a = []\nb = [a]\nb[0] += t('r', [1])"
    yield "a = []\no = O()\no.y = a\no.y += t('r', [1])"
    yield "a = []\nd = {'k': a}\nd['k'] += t('r', [1])"
    yield "l = [1, 2, 3, 4]\nl[t('lo', 1):t('hi', 3)] += t('r', [9])"
    yield "l = [[0]]\nl[t('i', 0)][t('j', 0)] += t('r', 1)"
    yield "a = 1\na += a + t('r', 1)"
    yield "a += t('r', 1)"
    yield "l = [1]\nl[t('i', 5)] += t('r', 1)"
    yield "d = {}\nd[t('k', 'z')] += t('r', 1)"
    yield "o = O()\no.nope += t('r', 1)"
    yield "a = [1]\na += t('r', 1)"
    yield "import_ = 1\nimport_ -= t('r', 1)"


def fam_delete(full):
    yield "a = 1\ndel a\nx = 'a' in globals()"
    yield "del a"
    yield "a = 1\nb = 2\ndel a, b\nx = ('a' in globals(), 'b' in globals())"
    yield "a = 1\nb = 2\ndel (a, b)"
    yield "a = 1\nb = 2\ndel [a, b]"
    yield "a = 1\ndel a\ndel a"
    yield "l = [1, 2, 3]\ndel l[t('i', 0)]"
    yield "l = [1, 2, 3]\ndel l[t('i', 5)]"
    yield "l = [1, 2, 3, 4]\ndel l[t('lo', 1):t('hi', 3)]"
    yield "l = [1, 2, 3, 4]\ndel l[::t('st', 2)]"
    yield "d = {'a': 1, 'b': 2}\ndel d[t('k', 'a')]"
    yield "d = {'a': 1}\ndel d[t('k', 'z')]"
    yield "l = [1, 2]\nd = {'a': 1}\ndel l[t('i', 0)], d[t('k', 'a')]"
    yield "tu = (1, 2)\ndel tu[t('i', 0)]"
    yield "o = O()\ndel o.x\nw = hasattr(o, 'x')"
    yield "o = O()\ndel o.nope"
    yield "o = O()\ndel t('o', o).x\nw = hasattr(o, 'x')"
    yield "o = O()\ndel o.y[t('i', 0)]"
    yield "l = [[1, 2]]\ndel l[t('i', 0)][t('j', 1)]"
    yield "a = 1\nl = [1]\ndel a, l[0]\nx = l"
    yield "a = b = [1]\ndel a\nx = b"
    yield "a = 1\ndel a\na = 2"


# ------------------------------------------------------------------------------------------------
# Level 2 / 3: every expression node type in every child slot of every node type.
# A template is (name, pattern, slot leaves).  "{i}" are child slots.  The leaves give a
# well-typed default for each slot; `ALT` gives an ill-typed alternative for the first slot.
# ------------------------------------------------------------------------------------------------
TEMPLATES = [
    ("add", "({0} + {1})", ["1", "2"]),
    ("mul", "({0} * {1})", ["2", "3"]),
    ("neg", "(-{0})", ["2"]),
    ("not", "(not {0})", ["0"]),
    ("lt", "({0} < {1})", ["1", "2"]),
    ("chain", "({0} < {1} <= {2})", ["1", "2", "2"]),
    ("in", "({0} in {1})", ["1", "[1, 2]"]),
    ("and", "({0} and {1})", ["1", "2"]),
    ("or", "({0} or {1})", ["0", "2"]),
    ("ifexp", "({1} if {0} else {2})", ["1", "2", "3"]),
    ("sub", "{0}[{1}]", ["[1, 2, 3]", "1"]),
    ("slice", "{0}[{1}:{2}]", ["[1, 2, 3]", "0", "2"]),
    ("attr", "{0}.x", ["O()"]),
    ("call", "rec({0}, k={1})", ["1", "2"]),
    ("callstar", "rec(*{0}, **{1})", ["[1, 2]", "{'a': 1}"]),
    ("meth", "{0}.m({1})", ["O()", "1"]),
    ("list", "[{0}, {1}]", ["1", "2"]),
    ("liststar", "[*{0}, {1}]", ["[1, 2]", "3"]),
    ("tuple", "({0}, {1})", ["1", "2"]),
    ("set", "{{{0}, {1}}}", ["1", "2"]),
    ("dict", "{{{0}: {1}}}", ["'k'", "1"]),
    ("dictstar", "{{**{0}, 'z': {1}}}", ["{'a': 1}", "2"]),
    ("listcomp", "[{1} for v in {0}]", ["[1, 2]", "3"]),
    ("listcompif", "[v for v in {0} if {1}]", ["[1, 2]", "1"]),
    ("setcomp", "{{{1} for v in {0}}}", ["[1, 2]", "3"]),
    ("dictcomp", "{{v: {1} for v in {0}}}", ["[1, 2]", "3"]),
    ("fstr", "f\"{{{0}}}-{{{1}!r}}\"", ["1", "'s'"]),
    ("fspec", "f\"{{{0}:{{{1}}}}}\"", ["1", "3"]),
    ("named", "(w := {0})", ["1"]),
    ("lambda", "(lambda q: q)({0})", ["1"]),
]
L3_NAMES = ["add", "chain", "and", "ifexp", "sub", "callstar", "liststar", "dict", "listcomp", "fstr", "named", "not"]


def _leafs(defaults, counter):
    out = []
    for d in defaults:
        counter[0] += 1
        out.append(f"t('t{counter[0]}', {d})")
    return out


def _fill(tpl, children):
    return tpl[1].format(*children)


def fam_nest2(full):
    alt_vals = ["None", "[1, 2]", "'ab'", "0"]
    for outer in TEMPLATES:
        for slot in range(len(outer[2])):
            for inner in TEMPLATES:
                c = [0]
                kids = _leafs(outer[2], c)
                inner_src = _fill(inner, _leafs(inner[2], c))
                kids[slot] = inner_src
                yield "x = " + _fill(outer, kids)
                if full:
                    # ill-typed / alternative operand variants of the inner node
                    for av in alt_vals:
                        c = [0]
                        kids = _leafs(outer[2], c)
                        ileafs = _leafs(inner[2], c)
                        ileafs[0] = f"t('alt', {av})"
                        kids[slot] = _fill(inner, ileafs)
                        yield "x = " + _fill(outer, kids)


def fam_nest3(full):
    tpls = [tp for tp in TEMPLATES if tp[0] in L3_NAMES]
    for outer in tpls:
        for s1 in range(len(outer[2])):
            for mid in tpls:
                for s2 in range(len(mid[2])):
                    for inner in tpls:
                        c = [0]
                        kids = _leafs(outer[2], c)
                        mkids = _leafs(mid[2], c)
                        mkids[s2] = _fill(inner, _leafs(inner[2], c))
                        kids[s1] = _fill(mid, mkids)
                        yield "x = " + _fill(outer, kids)


def fam_stmt_nest(full):
    """Every expression template in every statement-level expression slot."""
    stmts = [
        "a = {e}", "a, b = {e}, {e2}", "l = [0, 0, 0, 0]\nl[{e}] = 1", "l = [1, 2]\nl[0] += {e}", "a = 1\na += {e}",
        "d = {{}}\nd[{e}] = {e2}", "o = O()\no.x = {e}", "a: int = {e}", "l = [1, 2, 3, 4]\ndel l[{e}]", "{e}",
        "a = b = {e}", "*a, b = {e}",
    ]
    for st in stmts:
        for tp in TEMPLATES:
            c = [0]
            e = _fill(tp, _leafs(tp[2], c))
            e2 = _fill(tp, _leafs(tp[2], c))
            try:
                yield st.format(e=e, e2=e2)
            except (KeyError, IndexError):
                yield st.replace("{e2}", e2).replace("{e}", e)


FAMILIES = {
    "binop": fam_binop, "unop": fam_unop, "compare": fam_compare, "chain": fam_chain, "boolop": fam_boolop,
    "subscript": fam_subscript, "call": fam_call, "display": fam_display, "comp": fam_comp,
    "fstring": fam_fstring, "named": fam_named, "assign": fam_assign, "augassign": fam_augassign,
    "delete": fam_delete, "nest2": fam_nest2, "stmt_nest": fam_stmt_nest, "nest3": fam_nest3,
}
THOROUGH_ONLY = {"nest3"}
