"""Virtual-time event loop: no selector, time() is a virtual clock, the harness owns the run loop."""

import asyncio
import heapq
import threading
from asyncio import events


class Deadlock(RuntimeError):
    pass


class HorizonExceeded(RuntimeError):
    pass


class VirtualLoop(asyncio.BaseEventLoop):
    T0 = 1000.0

    def __init__(self):
        super().__init__()
        self._vtime = self.T0
        self.steps = 0
        self.max_steps = 2_000_000
        self.tick = 0.0  # virtual seconds that pass per callback (0: time only moves in advance*())
        self._thread_id = threading.get_ident()
        self.thread_executor = False
        self.executor_threads = []  # thread idents that ran executor jobs (observable for task.executor)

    # -- BaseEventLoop plumbing ---------------------------------------------------------------
    def time(self):
        return self._vtime

    def _process_events(self, event_list):
        pass

    def _write_to_self(self):
        pass

    def run_in_executor(self, executor, func, *args):
        """Run the job on a helper thread and join it: really off the loop thread, yet no
        concurrent scheduling to own."""
        fut = self.create_future()
        box = {}
        if not self.thread_executor:
            # default: inline (fast); worlds that observe task.executor switch the helper thread on
            try:
                fut.set_result(func(*args))
            except BaseException as exc:  # noqa
                fut.set_exception(exc)
            return fut

        def job():
            try:
                box["r"] = func(*args)
            except BaseException as exc:  # noqa
                box["e"] = exc

        th = threading.Thread(target=job)
        th.start()
        th.join()
        self.executor_threads.append(th.ident)
        if "e" in box:
            fut.set_exception(box["e"])
        else:
            fut.set_result(box.get("r"))
        return fut

    # -- stepping API -------------------------------------------------------------------------
    def step(self):
        """Run exactly one ready handle (cancelled handles are skipped and not counted).
        Returns False when nothing is ready."""
        while self._ready:
            h = self._ready.popleft()
            if h._cancelled:
                continue
            self.steps += 1
            if self.steps > self.max_steps:
                raise HorizonExceeded("callback horizon exceeded")
            h._run()
            if self.tick:
                self._vtime += self.tick
            return True
        return False

    def settle(self):
        """Run until no callback is ready; no time passes."""
        n = 0
        while self.step():
            n += 1
        return n

    def run_steps(self, k):
        n = 0
        while n < k and self.step():
            n += 1
        return n

    def next_timer(self):
        while self._scheduled and self._scheduled[0]._cancelled:
            h = heapq.heappop(self._scheduled)
            h._scheduled = False
        return self._scheduled[0]._when if self._scheduled else None

    def advance_to(self, when):
        """Move the clock to `when` and make due timers ready in (when, seq) order."""
        if when > self._vtime:
            self._vtime = when
        while self._scheduled and self._scheduled[0]._when <= self._vtime:
            h = heapq.heappop(self._scheduled)
            h._scheduled = False
            if not h._cancelled:
                self._ready.append(h)

    def advance(self, secs):
        """Let `secs` virtual seconds pass, firing every timer in order, settling after each."""
        target = self._vtime + secs
        while True:
            self.settle()
            nt = self.next_timer()
            if nt is None or nt > target:
                break
            self.advance_to(nt)
        self.advance_to(target)
        self.settle()

    def run_until(self, fut, horizon=3600.0):
        """Drive until `fut` is done, advancing virtual time as needed."""
        limit = self._vtime + horizon
        while not fut.done():
            self.settle()
            if fut.done():
                break
            nt = self.next_timer()
            if nt is None:
                raise Deadlock("future pending, nothing ready and no timers")
            if nt > limit:
                raise HorizonExceeded(f"future still pending at the horizon ({horizon}s)")
            self.advance_to(nt)
        return fut.result()

    def run_coro(self, coro, horizon=3600.0):
        return self.run_until(self.create_task(coro), horizon)

    def pending_timers(self, within=None):
        return [h for h in self._scheduled if not h._cancelled and (within is None or h._when <= self._vtime + within)]

    def install(self):
        events._set_running_loop(self)
        asyncio.set_event_loop(self)

    def uninstall(self):
        events._set_running_loop(None)
        self._thread_id = None
        asyncio.set_event_loop(None)
