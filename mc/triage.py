"""Debug helper: run all shards in-process-pool and print failure signatures with one witness each."""
import sys, os, collections, multiprocessing as mp
from mc import main as M, result as R
def run(pid, tier, maxw=2):
    mod = M._load(pid)
    shards = mod.plan(tier, 0)
    ctx = mp.get_context("fork")
    with ctx.Pool(16, initializer=M._worker_init) as pool:
        results = pool.map(M._run_shard, [(pid, i, s) for i, s in enumerate(shards)], chunksize=1)
    tot = R.Shard()
    for r in results:
        if r.harness_error: print(r.harness_error)
        tot.merge(r)
    by = collections.defaultdict(list)
    for f in tot.failures: by[f["sig"]].append(f)
    print("executions", tot.evaluations, "failures(kept)", len(tot.failures), "fail_count", tot.fail_count)
    for sig, fs in sorted(by.items()):
        print("==", sig, len(fs))
        for f in fs[:maxw]:
            c = f["case"]
            if isinstance(c, dict) and "src" in c and os.environ.get("TRIAGE_SRC", "1") == "1" and isinstance(f["expected"], tuple):
                print("   ---"); print("   " + c["src"].replace("\n", "\n   "))
                e, o = f["expected"], f["observed"]
                print("     exc py/ps:", e[2], o[2], " detail:", f.get("detail"))
                if e[0] != o[0]: print("     globals py:", str(e[0])[:200]); print("     globals ps:", str(o[0])[:200])
            else:
                print("   case:", c); print("     exp:", str(f["expected"])[:300]); print("     got:", str(f["observed"])[:300])
if __name__ == "__main__":
    run(sys.argv[1].upper(), sys.argv[2] if len(sys.argv) > 2 else "quick", int(sys.argv[3]) if len(sys.argv) > 3 else 2)
