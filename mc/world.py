"""The closed system: a fresh Home Assistant + pyscript on a virtual-time loop (DESIGN 2.1).

One execution = one World.  Everything nondeterministic is owned here: three clocks, executor jobs,
MQTT broker (fake), file tree (RAM disk), configuration yaml (world-owned dict).
"""

import asyncio
import collections
import datetime as dt
import gc
import inspect
import logging
import os
import shutil
import sys
import tempfile
import time as _time
import types
from unittest.mock import patch

from mc.vloop import VirtualLoop

from homeassistant import loader
from homeassistant.const import EVENT_HOMEASSISTANT_STARTED
from homeassistant.helpers import service as _ha_service
from homeassistant.setup import async_setup_component
from homeassistant.util import dt as dt_util
from pytest_homeassistant_custom_component.common import async_test_home_assistant

import custom_components.pyscript as ps
from custom_components.pyscript import trigger as ps_trigger
from custom_components.pyscript.decorators import timing as ps_timing
from custom_components.pyscript.eval import AstEval
from custom_components.pyscript.event import Event
from custom_components.pyscript.function import Function
from custom_components.pyscript.global_ctx import GlobalContext, GlobalContextMgr
from custom_components.pyscript.mqtt import Mqtt
from custom_components.pyscript.state import State
from custom_components.pyscript.webhook import Webhook

logging.getLogger().addHandler(logging.NullHandler())  # never fall back to the stderr "last resort" handler

UTC = dt.timezone.utc
DEFAULT_START_UTC = dt.datetime(2020, 7, 1, 19, 0, 0, tzinfo=UTC)  # 12:00 local (US/Pacific, PDT)
RAMDISK = os.environ.get("VERIF_TMP") or ("/dev/shm" if os.path.isdir("/dev/shm") else tempfile.gettempdir())


# ------------------------------------------------------------------------------------------------
# hard reset of pyscript's class-level state (found by introspection, so it follows refactors)
# ------------------------------------------------------------------------------------------------
_SNAPSHOT = None


def _pyscript_classes():
    seen = set()
    for name, mod in list(sys.modules.items()):
        if not name.startswith("custom_components.pyscript") or mod is None:
            continue
        for obj in vars(mod).values():
            if inspect.isclass(obj) and obj.__module__.startswith("custom_components.pyscript") and obj not in seen:
                seen.add(obj)
                yield obj


def _take_snapshot():
    global _SNAPSHOT
    snap = {}
    for cls in _pyscript_classes():
        for attr, val in list(vars(cls).items()):
            if attr.startswith("__") or callable(val) or isinstance(val, (classmethod, staticmethod, property)):
                continue
            if isinstance(val, (dict, set, list)):
                snap[(cls, attr)] = ("copy", type(val)(val))
            elif val is None or isinstance(val, (int, float, str, bool)):
                snap[(cls, attr)] = ("val", val)
    _SNAPSHOT = snap


def hard_reset():
    if _SNAPSHOT is None:
        _take_snapshot()
    for (cls, attr), (kind, val) in _SNAPSHOT.items():
        if kind == "copy":
            cur = vars(cls).get(attr)
            if isinstance(cur, type(val)) and isinstance(cur, (dict, set)):
                cur.clear()
                cur.update(val)
            elif isinstance(cur, list) and isinstance(val, list):
                cur[:] = val
            else:
                setattr(cls, attr, type(val)(val))
        else:
            if vars(cls).get(attr, val) is not val:
                setattr(cls, attr, val)


_SERVICES_YAML_CACHE = {}


def _cached_load_services_file(orig):
    """services.yaml files are static: parse each once per process instead of once per world."""

    def load(hass, integration):
        key = integration.domain
        if key not in _SERVICES_YAML_CACHE:
            _SERVICES_YAML_CACHE[key] = orig(hass, integration)
        return _SERVICES_YAML_CACHE[key]

    return load


class FakeTime:
    """Stands in for the `time` module inside pyscript: monotonic() is the loop clock."""

    def __init__(self, loop):
        self._loop = loop

    def monotonic(self):
        return self._loop.time()

    def __getattr__(self, n):
        return getattr(_time, n)


class FakeBroker:
    """Stands in for homeassistant.components.mqtt.async_subscribe."""

    def __init__(self):
        self.subs = []  # (topic filter, handler, encoding)
        self.log = []

    async def subscribe(self, hass, topic, msg_callback, qos=0, encoding="utf-8"):
        ent = (topic, msg_callback, encoding)
        self.subs.append(ent)
        self.log.append(("sub", topic))

        def unsub():
            self.log.append(("unsub", topic))
            if ent in self.subs:
                self.subs.remove(ent)

        return unsub

    @staticmethod
    def matches(flt, topic):
        fp, tp = flt.split("/"), topic.split("/")
        for i, p in enumerate(fp):
            if p == "#":
                return True
            if i >= len(tp):
                return False
            if p != "+" and p != tp[i]:
                return False
        return len(fp) == len(tp)

    def publish(self, loop, topic, payload, qos=0, retain=False):
        """Deliver to every matching subscription, each as its own task (as HA's mqtt client does)."""
        from homeassistant.components.mqtt.models import ReceiveMessage

        tasks = []
        for flt, cb, enc in list(self.subs):
            if self.matches(flt, topic):
                msg = ReceiveMessage(topic, payload, qos, retain, flt, dt_util.utcnow())
                res = cb(msg)
                if inspect.iscoroutine(res):
                    tasks.append(loop.create_task(res))
        return tasks


def _ha_internal(handle):
    """Timers of Home Assistant's own helpers (storage delayed writes, debouncers, interval trackers)."""
    cb = handle._callback
    owner = getattr(cb, "__self__", None)
    mod = type(owner).__module__ if owner is not None and not isinstance(owner, type(asyncio)) else getattr(cb, "__module__", "")
    return (mod or "").startswith("homeassistant.")


class LogCapture(logging.Handler):
    def __init__(self):
        super().__init__(level=logging.DEBUG)
        self.records = []

    def emit(self, record):
        try:
            msg = record.getMessage()
        except Exception:  # noqa
            msg = str(record.msg)
        if record.exc_info and record.exc_info[1] is not None:
            msg += f" [exc_info={type(record.exc_info[1]).__name__}: {record.exc_info[1]}]"
        self.records.append((record.name, record.levelname, msg))


GC_PERIOD = 40


class World:
    _count = 0

    def __init__(self, files=None, legacy=False, config=None, start_utc=DEFAULT_START_UTC, capture_logs=False,
                 allow_all_imports=False, started=True, log_level=logging.WARNING, thread_executor=False, tick=0.0):
        # Garbage collection policy: automatic collections are off (a full collection walks the whole Home
        # Assistant heap, ~100 ms, and 16 workers doing that saturate the memory system).  Each world freezes what
        # exists after set-up, so the explicit gc.collect() between operations only sees the operations' own
        # garbage; every GC_PERIOD worlds everything is unfrozen and collected once.
        gc.disable()
        World._count += 1
        if World._count % GC_PERIOD == 0:
            gc.unfreeze()
            gc.collect()
        hard_reset()
        self.closed = False
        self.loop = loop = VirtualLoop()
        loop.install()
        loop.thread_executor = thread_executor
        loop.tick = tick  # > 0: the clock creeps forward with every callback, as a real clock does
        self.t0 = loop.time()
        self.start_utc = start_utc
        self.skew = 0.0  # wall clock early (<0) / late (>0) relative to the monotonic clock
        self.cfgdir = tempfile.mkdtemp(prefix=f"verif-{os.getpid()}-", dir=RAMDISK)
        self.psdir = os.path.join(self.cfgdir, "pyscript")
        os.makedirs(self.psdir)
        self._mtime = 1_600_000_000
        for p, s in (files or {}).items():
            self.write(p, s)
        self.conf = {"legacy_decorators": bool(legacy), "allow_all_imports": bool(allow_all_imports)}
        self.conf.update(config or {})
        self.errors = []
        loop.set_exception_handler(lambda lp, c: self.errors.append(c))
        self.broker = FakeBroker()
        self.logs = None
        self._saved = {
            "dt_now": ps_trigger.dt_now, "ttime": ps_trigger.time, "mtime": ps_timing.time,
            "disable": logging.root.manager.disable,
        }
        ps_trigger.dt_now = self.now
        ps_trigger.time = FakeTime(loop)
        ps_timing.time = FakeTime(loop)
        self._patches = [
            patch("custom_components.pyscript.watchdog_start", return_value=None),
            patch("homeassistant.config.load_yaml_config_file", side_effect=lambda *a, **k: {"pyscript": dict(self.conf)}),
            patch("homeassistant.components.mqtt.async_subscribe", side_effect=self.broker.subscribe),
            patch("homeassistant.helpers.service._load_services_file",
                  _cached_load_services_file(_ha_service._load_services_file)),
        ]
        for p in self._patches:
            p.start()
        if capture_logs:
            logging.disable(logging.NOTSET)
            self.logs = LogCapture()
            lg = logging.getLogger("custom_components.pyscript")
            self._saved["level"] = lg.level
            lg.setLevel(log_level)
            lg.addHandler(self.logs)
        self.hass = None
        try:
            self.hass = loop.run_coro(self._setup(started))
            loop.settle()
            # everything allocated so far is long-lived for this world: exempt it from collections so that
            # gc.collect() between operations only looks at what the operations themselves created
            gc.freeze()
        except BaseException:
            self.close()
            raise

    async def _setup(self, started):
        self.cm = async_test_home_assistant(self.loop, config_dir=self.cfgdir)
        hass = await self.cm.__aenter__()
        hass.data.pop(loader.DATA_CUSTOM_COMPONENTS, None)
        Function.hass = None
        ok = await async_setup_component(hass, "pyscript", {"pyscript": dict(self.conf)})
        if not ok:
            raise RuntimeError("pyscript setup failed")
        if started:
            hass.bus.async_fire(EVENT_HOMEASSISTANT_STARTED)
        return hass

    # -- clocks -------------------------------------------------------------------------------
    def elapsed(self):
        return self.loop.time() - self.t0

    def now(self):
        """Naive local wall clock (what pyscript's dt_now() returns)."""
        tz = dt_util.get_default_time_zone()
        t = self.start_utc + dt.timedelta(seconds=self.elapsed() + self.skew)
        return t.astimezone(tz).replace(tzinfo=None)

    # -- files --------------------------------------------------------------------------------
    def write(self, rel, src, bump=True):
        fp = os.path.join(self.psdir, rel)
        os.makedirs(os.path.dirname(fp), exist_ok=True)
        with open(fp, "w", encoding="utf-8") as fh:
            fh.write(src)
        if bump:
            self._mtime += 10
        os.utime(fp, (self._mtime, self._mtime))

    def touch(self, rel):
        self._mtime += 10
        os.utime(os.path.join(self.psdir, rel), (self._mtime, self._mtime))

    def remove(self, rel):
        fp = os.path.join(self.psdir, rel)
        if os.path.isdir(fp):
            shutil.rmtree(fp)
        else:
            os.remove(fp)

    def rename(self, rel, new_rel):
        os.rename(os.path.join(self.psdir, rel), os.path.join(self.psdir, new_rel))

    # -- driving ------------------------------------------------------------------------------
    def settle(self):
        return self.loop.settle()

    def advance(self, secs):
        self.loop.advance(secs)

    def run(self, coro, horizon=3600.0):
        return self.loop.run_coro(coro, horizon)

    def set_state(self, entity, value, attrs=None):
        self.hass.states.async_set(entity, value, attrs or {})

    def remove_state(self, entity):
        self.hass.states.async_remove(entity)

    def fire(self, event_type, data=None, context=None):
        self.hass.bus.async_fire(event_type, data or {}, context=context)

    def call_service(self, domain, name, data=None, blocking=True, return_response=False, horizon=3600.0):
        return self.run(self.hass.services.async_call(domain, name, data or {}, blocking=blocking,
                                                      return_response=return_response), horizon)

    def start_service(self, domain, name, data=None, blocking=True, return_response=False):
        """Start a service call as a task without waiting for it."""
        return self.loop.create_task(self.hass.services.async_call(domain, name, data or {}, blocking=blocking,
                                                                   return_response=return_response))

    def webhook(self, webhook_id, payload, method="POST", body="json"):
        """Hand a webhook request to Home Assistant the way its HTTP view does (MockRequest seam)."""
        import json
        from urllib.parse import urlencode

        from homeassistant.components import webhook as ha_webhook
        from homeassistant.util.aiohttp import MockRequest

        if body == "json":
            content, headers = json.dumps(payload).encode(), {"Content-Type": "application/json"}
        elif body == "json_charset":
            content, headers = json.dumps(payload).encode(), {"Content-Type": "application/json; charset=utf-8"}
        else:
            content, headers = urlencode(payload).encode(), {"Content-Type": "application/x-www-form-urlencoded"}
        req = MockRequest(content, "127.0.0.1", method=method, headers=headers)
        return self.loop.create_task(ha_webhook.async_handle_webhook(self.hass, webhook_id, req))

    def reload(self, global_ctx=None):
        data = {} if global_ctx is None else {"global_ctx": global_ctx}
        return self.call_service("pyscript", "reload", data)

    def ctx(self, name="file.hello"):
        return GlobalContextMgr.get(name)

    def g(self, name="file.hello"):
        c = self.ctx(name)
        return c.global_sym_table if c else None

    def new_session(self, name=None):
        """An interactive (Jupyter-like) global context, as jupyter_kernel_start creates it."""
        name = name or GlobalContextMgr.new_name("jupyter_")
        gctx = GlobalContext(name, global_sym_table={"__name__": name}, manager=GlobalContextMgr)
        gctx.set_auto_start(True)
        GlobalContextMgr.set(name, gctx)
        return name

    def exec_in(self, code, name="file.hello", wait=True, horizon=3600.0):
        """Run source in a context exactly as the Jupyter kernel runs a cell."""
        ctx = self.ctx(name)
        a = AstEval(name, ctx)
        Function.install_ast_funcs(a)
        box = {}

        async def run():
            try:
                a.parse(code)
                box["result"] = await a.eval()
            except Exception as exc:  # noqa
                box["exc"] = exc
            await Function.waiter_sync()
            ctx.start()

        t = self.loop.create_task(run())
        if wait:
            self.loop.run_until(t, horizon)
            self.loop.settle()
        box["task"] = t
        return box

    def collect(self):
        gc.collect()
        self.loop.settle()

    # -- observation --------------------------------------------------------------------------
    def census(self, horizon=50_000.0):
        hass = self.hass
        # (homeassistant_final_write belongs to HA's storage helper and comes and goes with its delayed writes)
        listeners = {k: v for k, v in hass.bus.async_listeners().items() if v and k != "homeassistant_final_write"}
        services = {d: sorted(s) for d, s in hass.services.async_services().items() if s}
        tasks = [t for t in asyncio.all_tasks(self.loop) if not t.done()]
        return {
            "listeners": dict(sorted(listeners.items())),
            "services": dict(sorted(services.items())),
            "webhooks": sorted(hass.data.get("webhook", {}) or {}),
            "mqtt": sorted(t for t, _, _ in self.broker.subs),
            "state_notify": {k: len(v) for k, v in sorted(State.notify.items()) if v},
            "event_notify": {k: len(v) for k, v in sorted(Event.notify.items()) if v},
            "mqtt_notify": {k: len(v) for k, v in sorted(Mqtt.notify.items()) if v},
            "webhook_notify": {k: len(v) for k, v in sorted(Webhook.notify.items()) if v},
            "tasks": len(tasks),
            "timers": len([h for h in self.loop.pending_timers(within=horizon) if not _ha_internal(h)]),
            "our_tasks": len([t for t in Function.our_tasks if not t.done()]),
        }

    def log_records(self, prefix="custom_components.pyscript", min_level="WARNING"):
        lv = logging.getLevelName(min_level)
        return [r for r in (self.logs.records if self.logs else []) if r[0].startswith(prefix)
                and logging.getLevelName(r[1]) >= lv]

    # -- teardown -----------------------------------------------------------------------------
    def close(self):
        if self.closed:
            return
        self.closed = True
        try:
            if self.hass is not None:
                try:
                    self.loop.run_coro(self.hass.async_stop(force=True), horizon=500_000)
                except Exception:  # noqa
                    pass
                try:
                    self.loop.run_coro(self.cm.__aexit__(None, None, None), horizon=500_000)
                except Exception:  # noqa
                    pass
        finally:
            for p in self._patches:
                try:
                    p.stop()
                except Exception:  # noqa
                    pass
            ps_trigger.dt_now = self._saved["dt_now"]
            ps_trigger.time = self._saved["ttime"]
            ps_timing.time = self._saved["mtime"]
            if self.logs is not None:
                lg = logging.getLogger("custom_components.pyscript")
                lg.removeHandler(self.logs)
                lg.setLevel(self._saved.get("level", logging.NOTSET))
                logging.disable(self._saved["disable"])
            # cancel whatever is left so nothing leaks into the next world
            for t in asyncio.all_tasks(self.loop):
                t.cancel()
            try:
                self.loop.settle()
            except Exception:  # noqa
                pass
            self.loop.uninstall()
            try:
                self.loop.close()
            except Exception:  # noqa
                pass
            shutil.rmtree(self.cfgdir, ignore_errors=True)

    def __enter__(self):
        return self

    def __exit__(self, *a):
        self.close()
