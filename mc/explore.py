"""Enumeration helpers shared by the world-based drivers (E1 / E2 / E4)."""

import itertools


def sequences(alphabet, depth):
    """All sequences over alphabet of exactly `depth` (prefixes are checked along the way by the driver)."""
    return itertools.product(alphabet, repeat=depth)


def sequences_upto(alphabet, depth):
    for d in range(0, depth + 1):
        yield from itertools.product(alphabet, repeat=d)


def schedules(n_actions, max_dev, ks=(0, 1, 2)):
    """Environment answers between consecutive actions.  Default (None) = run the loop to quiescence
    before the next action; a deviation k = run only k loop callbacks (burst).  At most max_dev
    deviations; ordered by number of deviations (0 first)."""
    gaps = max(0, n_actions - 1)
    out = []
    for ndev in range(0, min(max_dev, gaps) + 1):
        for pos in itertools.combinations(range(gaps), ndev):
            for kk in itertools.product(ks, repeat=ndev):
                sched = [None] * gaps
                for p, k in zip(pos, kk):
                    sched[p] = k
                out.append(tuple(sched))
    return out


def shard_slices(n_items, n_shards):
    n_shards = max(1, min(n_shards, n_items))
    return [(k, n_shards) for k in range(n_shards)]


def match_groups(expected_groups, observed):
    """expected_groups: list of lists (each inner list = runs of one event, order free inside).
    observed: flat list.  True iff observed is a concatenation of permutations of the groups."""
    i = 0
    for grp in expected_groups:
        n = len(grp)
        chunk = observed[i:i + n]
        if sorted(map(repr, chunk)) != sorted(map(repr, grp)):
            return False
        i += n
    return i == len(observed)


def bfs_states(initial, actions, step, canon, max_states=100000):
    """Explicit-state BFS over a model transition function `step(state, action) -> state`.
    Returns {canon: shortest action path}."""
    seen = {canon(initial): ()}
    frontier = [(initial, ())]
    while frontier:
        nxt = []
        for st, path in frontier:
            for a in actions:
                s2 = step(st, a)
                k = canon(s2)
                if k not in seen:
                    seen[k] = path + (a,)
                    nxt.append((s2, path + (a,)))
                    if len(seen) > max_states:
                        raise RuntimeError("state cap hit")
        frontier = nxt
    return seen
