"""Known findings: genuine defects recorded instead of repaired (DESIGN 2.6).

known_findings.json:
  {"known": [{"property": "C05", "sig": "<divergence signature>", "what": "<what fails>"}...],
   "fixed": ["fixed: property=C01 <commit> <what failed>", ...]}

A failure is suppressed only if its *signature* (computed by the driver from the minimal failing
input and the kind of the first divergence) is listed.  Nothing is ever added at run time; "fixed"
entries suppress nothing.
"""

import json
import os

HERE = os.path.dirname(os.path.dirname(os.path.abspath(__file__)))
PATH = os.path.join(HERE, "known_findings.json")


def load(pid):
    try:
        data = json.load(open(PATH))
    except FileNotFoundError:
        return {}
    return {e["sig"]: e for e in data.get("known", []) if e["property"] == pid}


def split(failures, known):
    new, hits = [], {}
    for f in failures:
        e = known.get(f["sig"])
        if e is None:
            new.append(f)
        else:
            ent, cnt = hits.get(f["sig"], (e, 0))
            hits[f["sig"]] = (ent, cnt + 1)
    return new, hits
