"""E3 runner: the same source under pyscript's AstEval and under CPython; canonical observations.

Both sides get an identical, freshly built native environment:
    t(tag, value=None)   appends tag to the trail and returns value (the tracer)
    rec(*a, **k)         appends ("rec", a, k) to the trail, returns (a, k)
    O                    a native class with attributes, Obj() instances are mutable
    E1, E2               user-visible exception classes (native)
    CM(name, suppress, fail_enter, fail_exit)  native context manager with traced enter/exit
The pyscript side is driven with coro.send(None): pure Python code never suspends in AstEval.
"""

import sys
import types

from custom_components.pyscript.const import CONFIG_ENTRY, DOMAIN
from custom_components.pyscript.eval import AstEval, EvalFunc, EvalFuncVar, EvalLocalVar
from custom_components.pyscript.function import Function
from custom_components.pyscript.global_ctx import GlobalContext, GlobalContextMgr
from custom_components.pyscript.state import State


class _CE:
    data = {}


async def _inline_executor(func, *args):
    return func(*args)


def install_stub_hass():
    hass = types.SimpleNamespace(
        async_add_executor_job=_inline_executor,
        data={DOMAIN: {CONFIG_ENTRY: _CE()}},
        states=types.SimpleNamespace(get=lambda n: None),
        services=types.SimpleNamespace(has_service=lambda d, s: False),
        config=types.SimpleNamespace(path=lambda *a: "/nonexistent-pyscript-dir"),
    )
    Function.hass = hass
    State.hass = hass
    from custom_components.pyscript.decorator import DecoratorRegistry

    DecoratorRegistry._decorators = {}  # interpreter-only harness: no trigger decorators
    return hass


class Suspended(Exception):
    pass


def drive(coro):
    try:
        coro.send(None)
    except StopIteration as e:
        return e.value
    coro.close()
    raise Suspended("interpreter suspended on pure code")


class E1(Exception):
    pass


class E2(Exception):
    pass


class E3(E1):
    pass


class B1(BaseException):
    """A BaseException that is not an Exception (what task cancellation looks like to user code)."""


def make_env():
    trail = []

    def t(tag, value=None):
        trail.append(tag)
        return value

    def rec(*a, **k):
        trail.append(("rec", _canon(a, {}), _canon(k, {})))
        return (a, k)

    class O:
        cx = 5

        def __init__(self, **kw):
            self.x = 1
            self.y = [1]
            self.__dict__.update(kw)

        def m(self, *a, **k):
            trail.append(("m", _canon(a, {}), _canon(k, {})))
            return len(a)

        def __repr__(self):
            return "O(%s)" % ",".join(f"{k}={v!r}" for k, v in sorted(self.__dict__.items()))

    class CM:
        def __init__(self, name, suppress=False, fail_enter=False, fail_exit=False, value=None):
            self.name, self.suppress, self.fail_enter, self.fail_exit, self.value = (
                name, suppress, fail_enter, fail_exit, value)

        def __enter__(self):
            trail.append(("enter", self.name))
            if self.fail_enter:
                raise E2("enter")
            return self.value if self.value is not None else self.name

        def __exit__(self, et, ev, tb):
            trail.append(("exit", self.name, et.__name__ if et else None, type(ev).__name__ if ev is not None else None,
                          tb is not None))
            if self.fail_exit:
                raise E2("exit")
            return self.suppress

    env = {"t": t, "rec": rec, "O": O, "CM": CM, "E1": E1, "E2": E2, "E3": E3, "B1": B1}
    return env, trail


NATIVE_NAMES = {"t", "rec", "O", "CM", "E1", "E2", "E3", "B1"}


def _canon(v, ids, depth=0):
    """Canonical, type-carrying representation; mutable containers carry an alias id."""
    if depth > 8:
        return "<deep>"
    if isinstance(v, EvalLocalVar):
        v = v.get() if v.is_defined() else "<undefined>"
    if v is None or isinstance(v, (bool, int, float, str, bytes, complex)):
        return (type(v).__name__, repr(v))
    if isinstance(v, (list, dict, set, bytearray)):
        first = id(v) not in ids
        if first:
            ids[id(v)] = len(ids)
        tag = ids[id(v)]
        if not first:
            return ("alias", tag)
        if isinstance(v, list):
            return ("list", tag, tuple(_canon(x, ids, depth + 1) for x in v))
        if isinstance(v, dict):
            return ("dict", tag, tuple((_canon(k, ids, depth + 1), _canon(x, ids, depth + 1)) for k, x in v.items()))
        if isinstance(v, set):
            return ("set", tag, tuple(sorted((_canon(x, ids, depth + 1) for x in v), key=repr)))
        return ("bytearray", tag, bytes(v))
    if isinstance(v, tuple):
        return ("tuple", tuple(_canon(x, ids, depth + 1) for x in v))
    if isinstance(v, frozenset):
        return ("frozenset", tuple(sorted((_canon(x, ids, depth + 1) for x in v), key=repr)))
    if isinstance(v, (range, slice)):
        return (type(v).__name__, repr(v))
    if isinstance(v, (EvalFuncVar, EvalFunc)):
        return ("func",)
    if isinstance(v, BaseException):
        return ("exc", type(v).__name__, tuple(_canon(a, ids, depth + 1) for a in v.args))
    if isinstance(v, type):
        return ("class", v.__name__)
    if isinstance(v, types.ModuleType):
        return ("module", v.__name__)
    if isinstance(v, (types.FunctionType, types.MethodType)):
        return ("func",)  # names of function objects are metadata, not compared
    if callable(v) and hasattr(v, "__name__"):
        return ("callable", v.__name__)
    if hasattr(v, "__dict__"):
        first = id(v) not in ids
        if first:
            ids[id(v)] = len(ids)
        tag = ids[id(v)]
        if not first:
            return ("alias", tag)
        d = {k: x for k, x in vars(v).items() if not k.startswith("__")}
        return ("inst", type(v).__name__, tag,
                tuple((k, _canon(x, ids, depth + 1)) for k, x in sorted(d.items())))
    return ("other", type(v).__name__)


def canon_globals(g):
    ids = {}
    out = []
    for k in sorted(g):
        if k in NATIVE_NAMES or (k.startswith("__") and k.endswith("__")):
            continue
        out.append((k, _canon(g[k], ids)))
    return tuple(out)


NAME_FAMILY = {"UnboundLocalError": "NameError"}


def _exc_name(e, family):
    n = type(e).__name__
    if family:
        n = NAME_FAMILY.get(n, n)
    return n


def _exc_chain(e, family):
    out = [_exc_name(e, family)]
    c = e.__cause__
    out.append(_exc_name(c, family) if c is not None else None)
    return tuple(out)


_CTX_N = [0]


def run_ps(src, family=False, extra=None):
    env, trail = make_env()
    if extra:
        env.update(extra)
    g = dict(env)
    ctx = GlobalContext("test", global_sym_table=g, manager=GlobalContextMgr)
    a = AstEval("test", global_ctx=ctx)
    exc = None
    try:
        a.parse(src)
        drive(a.eval())
    except Suspended:
        raise
    except (Exception, B1) as e:  # noqa
        exc = _exc_chain(e, family)
    return canon_globals(g), tuple(trail), exc


def run_py(src, family=False, extra=None):
    env, trail = make_env()
    if extra:
        env.update(extra)
    g = dict(env)
    g["__name__"] = "test"
    exc = None
    try:
        exec(compile(src, "test", "exec"), g)
    except (Exception, B1) as e:  # noqa
        exc = _exc_chain(e, family)
    g.pop("__builtins__", None)
    return canon_globals(g), tuple(trail), exc


def compiles(src):
    try:
        compile(src, "test", "exec")
        return True
    except (SyntaxError, ValueError):
        return False


def diff_kind(ps, py):
    """Kind of the first divergence between two observations (globals, trail, exc)."""
    kinds = []
    if ps[2] != py[2]:
        kinds.append(f"exc:{py[2][0] if py[2] else None}->{ps[2][0] if ps[2] else None}")
    if ps[1] != py[1]:
        kinds.append("trail")
    if ps[0] != py[0]:
        kinds.append("globals")
    return "+".join(kinds)


def trail_diff(ps, py):
    """Short description of how the trails differ."""
    a, b = list(py), list(ps)
    i = 0
    while i < len(a) and i < len(b) and a[i] == b[i]:
        i += 1
    return {"at": i, "python": a[i:i + 3], "pyscript": b[i:i + 3]}
