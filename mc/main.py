"""Runner: ./check <ID> --tier quick|thorough [--replay FILE] [--jobs N]

A property driver (props/cNN.py) provides

    PID, LEVEL, RULE, ASSUMPTIONS           constants
    plan(tier, seed) -> list[shard]          picklable shard descriptors; the enumeration is split here
    run_shard(shard) -> mc.result.Shard      executes every case of the shard on the real code
    replay(case) -> dict                     re-executes one case, returns {"ok": bool, "trace": ...}
    bounds(tier) -> dict                     free-form description of the completed bounds

Exit codes: 0 property held on everything explored (known findings listed), 1 violation,
2 harness error (never a VIOLATION line).
"""

import argparse
import importlib
import json
import multiprocessing as mp
import os
import sys
import time
import traceback

from . import result as R
from . import findings as F

HERE = os.path.dirname(os.path.dirname(os.path.abspath(__file__)))
# VERIF_OUT (tools/seed_regress.py only): write replays/evidence elsewhere so that a regression run on a scratch copy of the
# repository (VERIF_REPO) leaves the committed evidence alone
OUT = os.environ.get("VERIF_OUT") or HERE


def _load(pid):
    return importlib.import_module(f"props.{pid.lower()}")


def _worker_init():
    import logging

    logging.disable(logging.CRITICAL)
    try:
        import gc

        gc.freeze()
    except Exception:
        pass


def _run_shard(args):
    pid, idx, shard = args
    mod = _load(pid)
    try:
        res = mod.run_shard(shard)
        res.index = idx
        return res
    except BaseException as exc:  # harness error: report, never a violation
        res = R.Shard()
        res.index = idx
        res.harness_error = f"shard {idx} {shard!r:.200}: " + "".join(
            traceback.format_exception(type(exc), exc, exc.__traceback__)
        )
        return res


def _replay_once(args):
    pid, case = args
    mod = _load(pid)
    return mod.replay(case)


def main(argv=None):
    ap = argparse.ArgumentParser()
    ap.add_argument("pid")
    ap.add_argument("--tier", default=os.environ.get("VERIF_TIER", "quick"), choices=["quick", "thorough"])
    ap.add_argument("--replay")
    ap.add_argument("--jobs", type=int, default=int(os.environ.get("VERIF_JOBS", "0")) or min(16, os.cpu_count() or 1))
    ap.add_argument("--limit", type=int, default=0, help="debug: only the first N shards (evidence says capped)")
    ns = ap.parse_args(argv)
    pid = ns.pid.upper()
    seed = int(os.environ.get("VERIF_SEED", "0") or 0)
    mod = _load(pid)

    if ns.replay:
        case = json.load(open(ns.replay))
        out = mod.replay(case["case"])
        print(json.dumps(out, indent=1, default=repr))
        if not out.get("ok", False):
            print(f"VIOLATION property={pid} replay={ns.replay}")
            return 1
        return 0

    t0 = time.time()
    if getattr(mod, "PRELOAD", True):
        # import Home Assistant + pyscript once, before forking: 16 workers importing it concurrently cost ~15 s each
        import mc.world  # noqa: F401
    shards = mod.plan(ns.tier, seed)
    capped = False
    if ns.limit and len(shards) > ns.limit:
        shards = shards[: ns.limit]
        capped = True
    order = list(range(len(shards)))
    if order:
        rot = seed % len(order)
        order = order[rot:] + order[:rot]  # VERIF_SEED only rotates the processing order
    jobs = max(1, min(ns.jobs, len(shards) or 1))
    ctx = mp.get_context("fork")
    maxtasks = getattr(mod, "MAXTASKS", 50)
    results = [None] * len(shards)
    deadline = float(os.environ.get("VERIF_DEADLINE_S", "0") or 0)
    with ctx.Pool(jobs, initializer=_worker_init, maxtasksperchild=maxtasks) as pool:
        it = pool.imap_unordered(_run_shard, [(pid, i, shards[i]) for i in order], chunksize=1)
        for res in it:
            results[res.index] = res
            if deadline and time.time() - t0 > deadline:
                capped = True
                pool.terminate()
                break
    total = R.Shard()
    herr = []
    for res in results:
        if res is None:
            continue
        if res.harness_error:
            herr.append(res.harness_error)
        total.merge(res)
    if herr:
        sys.stderr.write("HARNESS ERROR\n" + "\n".join(herr[:3]) + "\n")
        return 2

    known = F.load(pid)
    new_fail, known_hits = F.split(total.failures, known)

    # replay artefacts of earlier runs of this property are stale now
    import glob as _glob
    for old in _glob.glob(os.path.join(OUT, "replays", f"{pid}-*.json")):
        os.remove(old)
    # determinism re-check of new failures in fresh processes (DESIGN 2.2)
    exit_code = 0
    viol_lines = []
    if new_fail:
        os.makedirs(os.path.join(OUT, "replays"), exist_ok=True)
        seen_sig = {}
        unstable = []
        for f in new_fail:
            seen_sig.setdefault(f["sig"], f)
        for n, (sig, f) in enumerate(list(seen_sig.items())[:20]):
            with ctx.Pool(1, maxtasksperchild=1) as p1:
                a = p1.apply(_replay_once, ((pid, f["case"]),))
            with ctx.Pool(1, maxtasksperchild=1) as p2:
                b = p2.apply(_replay_once, ((pid, f["case"]),))
            if a.get("ok", False) != b.get("ok", False) or a.get("ok", False):
                # This failure was seen during the exploration but not (or not both times) in a fresh process.  Only failures that
                # replay identically twice are reported as violations; an unstable one is kept aside, and the run is a harness
                # error if NO failure of it is reproducible (a change whose effect depends on object addresses typically leaves
                # some reproducible failures and some that are not).
                unstable.append({"sig": sig, "case": f["case"], "first_replay_ok": a.get("ok", False), "second_replay_ok": b.get("ok", False)})
                sys.stderr.write(f"UNSTABLE (not reported as violation): {sig} {f['case']!r:.300}\n")
                continue
            if json.dumps(a, sort_keys=True, default=repr) != json.dumps(b, sort_keys=True, default=repr):
                # both replays violate the property but differ in detail: the implementation itself iterates a
                # set of objects hashed by address; the violation stands, the difference is recorded
                f["detail"] = {"first_replay": a, "second_replay": b, "note": "replays agree on the verdict, differ in detail"}
            path = os.path.join(OUT, "replays", f"{pid}-{n}.json")
            with open(path, "w") as fh:
                json.dump(
                    {"property": pid, "tier": ns.tier, "seed": seed, "sig": sig, "case": f["case"],
                     "expected": f.get("expected"), "observed": f.get("observed"), "detail": f.get("detail"),
                     "replay_cmd": f"./check {pid} --replay {path}"},
                    fh, indent=1, default=repr)
            viol_lines.append(f"VIOLATION property={pid} replay={path}")
        if not viol_lines:
            sys.stderr.write("HARNESS ERROR: none of the failures seen during the exploration reproduces on replay\n")
            return 2
        exit_code = 1

    for sig, (entry, cnt) in sorted(known_hits.items()):
        print(f"KNOWN-FINDING: property={pid} {entry['what']} [{cnt} witness(es); sig={sig}]")

    wall = time.time() - t0
    distinct_outcomes = len(total.outcomes)
    vacuous = total.evaluations > 50 and distinct_outcomes < 2
    ev = {
        "property_id": pid,
        "tier": ns.tier,
        "seed": seed,
        "level": mod.LEVEL,
        "coverage": {
            "states": max(1, len(total.states) or distinct_outcomes),
            "transitions": max(1, total.transitions),
            "traces_validated_against_impl": total.evaluations,
            "evaluations": total.evaluations,
            "distinct_nontrivial": len(total.nontrivial),
            "distinct_outcomes": distinct_outcomes,
            "rule": mod.RULE,
            "samples": total.samples_out(),
            "exhaustive": (not capped) and not total.caps,
            "caps_hit": sorted(total.caps),
            "bounds": mod.bounds(ns.tier),
            "per_config": dict(sorted(total.per_config.items())),
            "known_findings_witnessed": {s: c for s, (e, c) in known_hits.items()},
            "shards": len(shards),
            "hash_seed": os.environ.get("PYTHONHASHSEED"),
            "explanation": getattr(mod, "EXPLANATION", mod.RULE),
        },
        "assumptions": list(mod.ASSUMPTIONS),
        "wall_s": round(wall, 2),
        "violations": len({f["sig"] for f in new_fail}),
    }
    os.makedirs(os.path.join(OUT, "evidence"), exist_ok=True)
    R.write_evidence(os.path.join(OUT, "evidence", f"{pid}.json"), ev)
    print(
        f"{pid} tier={ns.tier} seed={seed} executions={total.evaluations} transitions={total.transitions} "
        f"states={ev['coverage']['states']} outcomes={distinct_outcomes} nontrivial={len(total.nontrivial)} "
        f"known={len(known_hits)} new_failures={len(new_fail)} exhaustive={ev['coverage']['exhaustive']} wall={wall:.1f}s"
    )
    for line in viol_lines:
        print(line)
    if vacuous and exit_code == 0:
        sys.stderr.write("HARNESS ERROR: vacuous exploration (a single distinct outcome)\n")
        return 2
    return exit_code


if __name__ == "__main__":
    sys.exit(main())
