"""Per-shard result accumulator, merge, and evidence writer."""

import collections
import hashlib
import json
import os


def h64(obj):
    """Stable 64-bit hash of a canonical (repr-able) observation."""
    if not isinstance(obj, (bytes, str)):
        obj = repr(obj)
    if isinstance(obj, str):
        obj = obj.encode("utf-8", "backslashreplace")
    return int.from_bytes(hashlib.blake2b(obj, digest_size=8).digest(), "big")


class Shard:
    MAX_FAIL = 200

    def __init__(self):
        self.index = 0
        self.evaluations = 0  # complete executions on the real code
        self.transitions = 0  # actions / statements / steps executed on the real code
        self.states = set()  # canonical states (E2) — 64-bit hashes
        self.outcomes = set()  # canonical observations — 64-bit hashes
        self.nontrivial = set()  # canonical observations that are non-trivial by the driver's rule
        self.failures = []  # dicts: sig, case, expected, observed, detail
        self.fail_count = 0
        self.samples = {}  # slot -> case
        self.per_config = collections.Counter()
        self.caps = set()
        self.harness_error = None

    # -- recording ---------------------------------------------------------------------------
    def case(self, obs, nontrivial, transitions=1, config=None, sample=None, state=None):
        self.evaluations += 1
        self.transitions += transitions
        k = h64(obs)
        self.outcomes.add(k)
        if nontrivial:
            self.nontrivial.add(k)
        if state is not None:
            self.states.add(h64(state))
        if config is not None:
            self.per_config[config] += 1
        if sample is not None:
            if "first" not in self.samples:
                self.samples["first"] = sample
            self.samples["last"] = sample
            if nontrivial and "nontrivial" not in self.samples:
                self.samples["nontrivial"] = sample

    def fail(self, sig, case, expected=None, observed=None, detail=None):
        self.fail_count += 1
        # keep the first witness of every signature, and a bounded number overall
        if len(self.failures) < self.MAX_FAIL or not any(f["sig"] == sig for f in self.failures):
            self.failures.append(
                {"sig": sig, "case": case, "expected": expected, "observed": observed, "detail": detail}
            )

    def merge(self, other):
        self.evaluations += other.evaluations
        self.transitions += other.transitions
        self.states |= other.states
        self.outcomes |= other.outcomes
        self.nontrivial |= other.nontrivial
        self.failures.extend(other.failures)
        self.fail_count += other.fail_count
        self.per_config.update(other.per_config)
        self.caps |= other.caps
        for k, v in other.samples.items():
            if k == "last" or k not in self.samples:
                self.samples[k] = v
        if other.samples and "middle" not in self.samples and self.evaluations > 10:
            self.samples["middle"] = other.samples.get("first")

    def samples_out(self):
        out = []
        for k in ("first", "nontrivial", "middle", "last"):
            if k in self.samples:
                out.append({"slot": k, "case": self.samples[k]})
        return out or [{"slot": "none", "case": None}]


def write_evidence(path, ev):
    txt = json.dumps(ev, indent=1, default=repr)
    try:
        import jsonschema

        schema = json.load(open("/root/.vp/EVIDENCE.schema.json"))
        jsonschema.validate(json.loads(txt), schema)
    except ImportError:
        pass
    except FileNotFoundError:
        pass
    tmp = path + ".tmp"
    with open(tmp, "w") as fh:
        fh.write(txt + "\n")
    os.replace(tmp, path)
