"""Dictionary model of Home Assistant's state machine (what the properties call 'the model')."""

import copy


class StateModel:
    def __init__(self, initial=None):
        # entity -> (value:str, attrs:dict)
        self.s = {k: (v[0], dict(v[1])) for k, v in (initial or {}).items()}

    def copy(self):
        return StateModel(self.s)

    def get(self, ent):
        return self.s.get(ent)

    def set(self, ent, value=None, attrs=None):
        """async_set: returns the state_changed event (ent, old, new) or None when nothing changed."""
        old = self.s.get(ent)
        if value is None:
            value = old[0] if old else ""
        if attrs is None:
            attrs = dict(old[1]) if old else {}
        new = (str(value), dict(attrs))
        if old is not None and old[0] == new[0] and old[1] == new[1]:
            return None
        self.s[ent] = new
        return (ent, copy.deepcopy(old), copy.deepcopy(new))

    def remove(self, ent):
        old = self.s.pop(ent, None)
        if old is None:
            return None
        return (ent, old, None)

    def canon(self):
        return tuple(sorted((k, v[0], tuple(sorted(v[1].items()))) for k, v in self.s.items()))
