"""Reference timeline for state_check_now / state_hold / state_hold_false (DESIGN Appendix A.2).

Written from the property statement and docs/reference.rst, not from the implementation.

Input: the option values, whether the expression is true at definition time, and the list of
*evaluations* [(time, truth, args)] caused by watched changes (changes that cause no evaluation are
simply not in the list).  Output: the occurrences [(time, args)].
"""

INITIAL_ARGS = ("INIT",)


def occurrences(check_now, hold, hold_false, init_true, evaluations, horizon):
    occ = []
    false_since = None  # None = "a false evaluation must be seen first"
    hold_start = None
    hold_args = None

    def flush(upto):
        nonlocal hold_start, hold_args
        if hold_start is not None and hold_start + hold <= upto:
            occ.append((hold_start + hold, hold_args))
            hold_start = None

    def evaluate(now, ok, args, initial=False):
        nonlocal false_since, hold_start, hold_args
        qualifies = ok
        if hold_false is not None:
            if initial:
                false_since = None if ok else now
                if not check_now:
                    return
                # with state_check_now the initial true evaluation occurs regardless of hold_false
            elif ok:
                qualifies = false_since is not None and (now - false_since) >= hold_false
                false_since = None
            elif false_since is None:
                false_since = now
        if hold is not None:
            if ok:
                if qualifies and hold_start is None:
                    hold_start, hold_args = now, args
                # further true evaluations neither restart nor cancel the delay
            else:
                hold_start = None  # a false evaluation cancels the pending hold
            return
        if ok and qualifies:
            occ.append((now, args))

    if check_now or hold_false is not None:
        evaluate(0.0, init_true, INITIAL_ARGS, initial=True)
    for (t, ok, args) in evaluations:
        flush(t)
        evaluate(t, ok, args)
    flush(horizon)
    return occ
