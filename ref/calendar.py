"""Independent denotation of pyscript time specifications (DESIGN Appendix A.1).

All times are naive local datetimes ("labels") in the Home Assistant time zone.  `real(label)` gives the UTC
instant of a label (first occurrence for a repeated label, None for a label skipped by spring-forward).
Only the sun times come from astral (trusted base), everything else is own arithmetic.
"""

import datetime as dt
import re
from zoneinfo import ZoneInfo

TZ = ZoneInfo("US/Pacific")
UTC = dt.timezone.utc
US = dt.timedelta(microseconds=1)

UNITS = {"": 1, "s": 1, "sec": 1, "second": 1, "seconds": 1, "m": 60, "min": 60, "mins": 60, "minute": 60, "minutes": 60,
         "h": 3600, "hr": 3600, "hour": 3600, "hours": 3600, "d": 86400, "day": 86400, "days": 86400,
         "w": 604800, "week": 604800, "weeks": 604800}
DOW = {"sunday": 6, "monday": 0, "tuesday": 1, "wednesday": 2, "thursday": 3, "friday": 4, "saturday": 5,
       "sun": 6, "mon": 0, "tue": 1, "wed": 2, "thu": 3, "fri": 4, "sat": 5}  # python weekday()


def real(label):
    """UTC instant of a local label.  A label repeated by fall-back means its first occurrence; a label inside the
    spring-forward gap means the instant given by the offset before the jump (PEP 495, fold=0)."""
    return label.replace(tzinfo=TZ, fold=0).astimezone(UTC)


def exists(label):
    return real(label).astimezone(TZ).replace(tzinfo=None) == label


def ambiguous(label):
    a = label.replace(tzinfo=TZ, fold=0).utcoffset()
    b = label.replace(tzinfo=TZ, fold=1).utcoffset()
    return a != b and exists(label)


def elapsed(a, b):
    """Real seconds from label a to label b."""
    return (real(b) - real(a)).total_seconds()


def label_of(utc):
    return utc.astimezone(TZ).replace(tzinfo=None)


_SUN = {}


def sun_time(which, date, location):
    key = (which, date)
    if key not in _SUN:
        t = (location.sunrise if which == "sunrise" else location.sunset)(date)
        _SUN[key] = dt.datetime(t.year, t.month, t.day, t.hour, t.minute, t.second)
    return _SUN[key]


class DT:
    """A parsed 'datetime' of the grammar: date form + time form + offset seconds."""

    def __init__(self, date, time, offset=0.0):
        self.date = date  # ("full", y, m, d) | ("md", m, d) | ("dow", weekday) | ("none",) | ("now",) | ("rel", 0|1)
        self.time = time  # ("hms", h, m, s) | ("sunrise",) | ("sunset",) | ("none",)
        self.offset = offset

    def on_day(self, day, location):
        """Instant for a concrete calendar day."""
        if self.time[0] == "hms":
            base = dt.datetime(day.year, day.month, day.day) + dt.timedelta(hours=self.time[1], minutes=self.time[2], seconds=self.time[3])
        elif self.time[0] in ("sunrise", "sunset"):
            base = sun_time(self.time[0], day, location)
        else:
            base = dt.datetime(day.year, day.month, day.day)
        return base + dt.timedelta(seconds=self.offset)

    def days(self, lo, hi):
        """Calendar days (as dates) on which the date form applies, between lo and hi (dates, inclusive)."""
        if self.date[0] == "full":
            d = dt.date(self.date[1], self.date[2], self.date[3])
            return [d]
        out = []
        d = lo
        while d <= hi:
            if self.date[0] == "md":
                if (d.month, d.day) == (self.date[1], self.date[2]):
                    out.append(d)
            elif self.date[0] == "dow":
                if d.weekday() == self.date[1]:
                    out.append(d)
            else:
                out.append(d)
            d += dt.timedelta(days=1)
        return out


def once_next(D, now, startup, location, horizon_days=800):
    if D.date[0] == "now":
        t = startup + dt.timedelta(seconds=D.offset)
        # 'now' itself is an instant of the spec: at the first evaluation (now == startup) it is due
        return t if t > now or (t == now == startup) else None
    if D.date[0] == "rel":
        # today / tomorrow are relative to the evaluation time
        t = D.on_day(now.date() + dt.timedelta(days=D.date[1]), location)
        return t if t > now else None
    span = dt.timedelta(days=3 + abs(D.offset) / 86400)
    lo = (now - span).date()
    hi = (now + dt.timedelta(days=horizon_days)).date()
    if D.date[0] == "full":
        t = D.on_day(dt.date(D.date[1], D.date[2], D.date[3]), location)
        return t if t > now else None
    best = None
    step = dt.timedelta(days=40)
    cur = lo
    while cur <= hi and best is None:
        for day in D.days(cur, min(hi, cur + step)):
            t = D.on_day(day, location)
            if t > now and (best is None or t < best):
                best = t
        cur += step + dt.timedelta(days=1)
    return best


def period_next(S, interval, E, now, startup, location):
    """period(S, I[, E]) with a fixed / now-based start, or a time-only start (self-consistent anchoring)."""
    if S.date[0] in ("full", "now"):
        start = (startup + dt.timedelta(seconds=S.offset)) if S.date[0] == "now" else S.on_day(dt.date(S.date[1], S.date[2], S.date[3]), location)
        end = None
        if E is not None:
            end = (startup + dt.timedelta(seconds=E.offset)) if E.date[0] == "now" else E.on_day(dt.date(E.date[1], E.date[2], E.date[3]), location)
        if now < start or (now == start == startup):
            t = start
        else:
            k = int((now - start).total_seconds() // interval) + 1
            t = start + dt.timedelta(seconds=k * interval)
            while t <= now:
                t += dt.timedelta(seconds=interval)
        if end is not None and t > end:
            return None
        return t
    # time-only start (and optional time-only end): per-day windows
    best = None
    for delta in (-1, 0, 1, 2):
        day = (now + dt.timedelta(days=delta)).date()
        s = S.on_day(day, location)
        if E is not None:
            e = E.on_day(day, location)
            if e < s:
                e = E.on_day(day + dt.timedelta(days=1), location)  # the window wraps around midnight
        else:
            e = None
        t = s
        while e is None or t <= e:
            if t > now:
                if best is None or t < best:
                    best = t
                break
            t += dt.timedelta(seconds=interval)
            if e is None and t >= s + dt.timedelta(days=1):
                break
    return best


def _field(spec, lo, hi):
    vals = set()
    for part in spec.split(","):
        step = 1
        if "/" in part:
            part, st = part.split("/")
            step = int(st)
        if part == "*":
            a, b = lo, hi
        elif "-" in part:
            a, b = map(int, part.split("-"))
        else:
            a = b = int(part)
            if step != 1:
                b = hi
        vals.update(range(a, b + 1, step))
    return vals


class Cron:
    def __init__(self, expr):
        f = expr.split()
        self.minute, self.hour = _field(f[0], 0, 59), _field(f[1], 0, 23)
        self.dom, self.month = _field(f[2], 1, 31), _field(f[3], 1, 12)
        self.dow = {d % 7 for d in _field(f[4], 0, 7)}  # 0 and 7 are Sunday
        self.dom_any, self.dow_any = f[2] == "*" or f[2].startswith("*/"), f[4] == "*"
        self.dom_star, self.dow_star = f[2] == "*", f[4] == "*"

    def day_ok(self, d):
        if d.month not in self.month:
            return False
        dom_ok = d.day in self.dom
        dow_ok = ((d.weekday() + 1) % 7) in self.dow
        if self.dom_star and self.dow_star:
            return True
        if self.dom_star:
            return dow_ok
        if self.dow_star:
            return dom_ok
        return dom_ok or dow_ok  # both restricted: either matches

    def matches(self, t):
        return t.second == 0 and t.microsecond == 0 and t.minute in self.minute and t.hour in self.hour and self.day_ok(t.date())

    def next(self, now, horizon_days=3000, gap="pep495"):
        """Matching label with the least real instant strictly after `now` (ties: the earlier label).
        gap='skip': labels inside the spring-forward gap do not occur."""
        now_real = real(now)
        day = now.date() - dt.timedelta(days=1)
        end = day + dt.timedelta(days=horizon_days)
        hours, minutes = sorted(self.hour), sorted(self.minute)
        while day <= end:
            if self.day_ok(day):
                best = None
                for h in hours:
                    for m in minutes:
                        t = dt.datetime(day.year, day.month, day.day, h, m)
                        r = real(t)
                        if gap == "skip" and not exists(t):
                            continue
                        if r > now_real and (best is None or (r, t) < best):
                            best = (r, t)
                if best is not None:
                    return best[1]
            day += dt.timedelta(days=1)
        return None


# ---- parsing of the textual forms used by the generators (own parser, used by the oracle only) -----------
_TIME_RE = re.compile(r"^(\d+):(\d+)(?::(\d+(?:\.\d+)?))?")
_OFF_RE = re.compile(r"^([+-])\s*(\d*\.?\d+)\s*([a-z]*)$")


def parse_dt(text):
    s = text.strip().lower()
    date = ("none",)
    m = re.match(r"^(\d+)/(\d+)/(\d+)", s)
    m2 = re.match(r"^(\d+)/(\d+)", s)
    if m:
        date = ("full", int(m[1]), int(m[2]), int(m[3]))
        s = s[m.end():].strip()
    elif m2:
        date = ("md", int(m2[1]), int(m2[2]))
        s = s[m2.end():].strip()
    else:
        w = re.match(r"^([a-z]+)", s)
        if w and w[1] in DOW:
            date = ("dow", DOW[w[1]])
            s = s[w.end():].strip()
        elif w and w[1] == "now":
            date = ("now",)
            s = s[w.end():].strip()
        elif w and w[1] in ("today", "tomorrow"):
            date = ("rel", 1 if w[1] == "tomorrow" else 0)
            s = s[w.end():].strip()
    time = ("none",)
    tm = _TIME_RE.match(s)
    if tm:
        time = ("hms", int(tm[1]), int(tm[2]), float(tm[3]) if tm[3] else 0.0)
        s = s[tm.end():].strip()
    elif s.startswith("sunrise"):
        time, s = ("sunrise",), s[7:].strip()
    elif s.startswith("sunset"):
        time, s = ("sunset",), s[6:].strip()
    elif s.startswith("noon"):
        time, s = ("hms", 12, 0, 0.0), s[4:].strip()
    elif s.startswith("midnight"):
        time, s = ("hms", 0, 0, 0.0), s[8:].strip()
    off = 0.0
    if s:
        om = _OFF_RE.match(s)
        if not om:
            raise ValueError("oracle cannot parse offset: " + text)
        off = float(om[2]) * UNITS[om[3]] * (1 if om[1] == "+" else -1)
    return DT(date, time, off)


def parse_interval(text):
    m = re.match(r"^\s*(\d*\.?\d+)\s*([a-z]*)\s*$", text.strip().lower())
    return float(m[1]) * UNITS[m[2]]


def spec_next(spec, now, startup, location):
    """Oracle for a single textual spec: (next label or None, kind)."""
    spec = spec.strip()
    if spec.startswith("cron("):
        return Cron(spec[5:-1]).next(now), "cron"
    if spec.startswith("once("):
        return once_next(parse_dt(spec[5:-1]), now, startup, location), "once"
    if spec.startswith("period("):
        parts = [p.strip() for p in spec[7:-1].split(",")]
        S = parse_dt(parts[0])
        E = parse_dt(parts[2]) if len(parts) > 2 else None
        return period_next(S, parse_interval(parts[1]), E, now, startup, location), "period"
    raise ValueError(spec)
