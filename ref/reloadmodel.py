"""Reference model of pyscript's reload rules (DESIGN Appendix A.3, docs 'Reloading Scripts' / 'Global Context').

Files of the universe and their context names:
    a.py -> file.a, b.py -> file.b, scripts/s/x.py -> scripts.s.x,
    apps/app1/__init__.py -> apps.app1, apps/app1/sib.py -> apps.app1.sib, apps/app2.py -> apps.app2,
    modules/m1.py -> modules.m1, modules/m2/__init__.py -> modules.m2, modules/m2/sib.py -> modules.m2.sib,
    apps/app11.py -> apps.app11, modules/m11.py -> modules.m11, modules/leaf.py -> modules.leaf
"""

FILES = {
    "a.py": "file.a", "b.py": "file.b", "scripts/s/x.py": "scripts.s.x",
    "apps/app1/__init__.py": "apps.app1", "apps/app1/sib.py": "apps.app1.sib", "apps/app2.py": "apps.app2",
    "modules/m1.py": "modules.m1", "modules/m2/__init__.py": "modules.m2", "modules/m2/sib.py": "modules.m2.sib",
    # names that are string prefixes of each other (app1 / app11, m1 / m11) and a module below the shared one
    "apps/app11.py": "apps.app11", "modules/m11.py": "modules.m11", "modules/leaf.py": "modules.leaf",
}
CTX2FILE = {v: k for k, v in FILES.items()}
AUTOLOAD = {"file.a", "file.b", "scripts.s.x", "apps.app1", "apps.app2", "apps.app11"}
APP_OF = {"apps.app1": "app1", "apps.app2": "app2", "apps.app11": "app11"}


def root_of(ctx):
    p = ctx.split(".")
    return p[0] + "." + p[1] if p[0] in ("apps", "modules") else ctx


class ReloadModel:
    def __init__(self, edges):
        """edges: ctx -> list of imported contexts (module contexts or package siblings)."""
        self.edges = edges
        self.files = {p: {"gen": 1, "mtime": 0, "hidden": False} for p in FILES}  # present files
        self.hidden_dirs = set()
        self.apps = {"app1": 1, "app2": 1, "app11": 1}  # configured apps -> config value
        self.loaded = {}  # ctx -> dict(gen, mtime, appcfg, imports)
        self.options_changed = False

    # -- file system view ------------------------------------------------------------------------------
    def visible(self, path):
        f = self.files.get(path)
        if f is None or f["hidden"]:
            return False
        # a '#'-renamed directory hides its files
        return not any(path.startswith(d + "/") for d in self.hidden_dirs)

    def exists(self, ctx):
        return self.visible(CTX2FILE[ctx])

    def autoload_now(self):
        out = set()
        for ctx in AUTOLOAD:
            if not self.exists(ctx):
                continue
            if ctx in APP_OF and APP_OF[ctx] not in self.apps:
                continue
            out.add(ctx)
        return out

    def appcfg(self, ctx):
        return self.apps.get(APP_OF[ctx]) if ctx in APP_OF else None

    # -- execution ------------------------------------------------------------------------------------
    def _execute(self, ctx, events):
        f = self.files[CTX2FILE[ctx]]
        self.loaded[ctx] = {"gen": f["gen"], "mtime": f["mtime"], "appcfg": self.appcfg(ctx), "imports": set()}
        events.append((ctx, f["gen"]))
        for imp in self.edges.get(ctx, []):
            if imp in self.loaded:
                self.loaded[ctx]["imports"].add(imp)
                continue
            if self.exists(imp):
                try:
                    self._execute(imp, events)
                except ImportError:
                    self.loaded.pop(imp, None)  # a module that fails to load is not kept either
                    raise
                self.loaded[ctx]["imports"].add(imp)
            else:
                # import fails: the importing file fails to load (its context is not kept)
                raise ImportError(imp)

    def initial_load(self):
        events = []
        for ctx in sorted(self.autoload_now()):
            self._try_execute(ctx, events)
        return events

    def _try_execute(self, ctx, events):
        try:
            self._execute(ctx, events)
        except ImportError:
            self.loaded.pop(ctx, None)

    def transitive_imports(self, ctx, seen=None):
        seen = seen if seen is not None else set()
        for imp in self.loaded.get(ctx, {}).get("imports", ()):
            if imp not in seen:
                seen.add(imp)
                self.transitive_imports(imp, seen)
        return seen

    # -- reload ---------------------------------------------------------------------------------------
    def reload(self, global_ctx=None):
        """Returns (discarded contexts, load events)."""
        auto = self.autoload_now()
        if self.options_changed:
            # a changed global option (allow_all_imports, hass_is_global, legacy_decorators) reloads everything, once
            self.options_changed = False
            global_ctx = "*"
        if global_ctx == "*":
            changed = set(self.loaded)
        elif global_ctx is not None:
            if global_ctx not in self.loaded and not (global_ctx in CTX2FILE and self.exists(global_ctx)):
                return set(), []  # no such context: nothing happens
            changed = {global_ctx}
        else:
            changed = set()
            for ctx, st in self.loaded.items():
                f = self.files.get(CTX2FILE[ctx])
                if not self.exists(ctx) or (ctx in APP_OF and APP_OF[ctx] not in self.apps):
                    changed.add(ctx)
                elif f["gen"] != st["gen"] or f["mtime"] != st["mtime"] or self.appcfg(ctx) != st["appcfg"]:
                    changed.add(ctx)
            # unloaded files of a package that is loaded count as a change of that package too
            for path, ctx in FILES.items():
                if ctx not in self.loaded and self.exists(ctx) and ctx not in AUTOLOAD and False:
                    changed.add(ctx)
        discard = {c for c in changed if c in self.loaded}
        mod_roots = {root_of(c) for c in changed if c.startswith("modules.")}
        grew = True
        while grew:
            grew = False
            # whole app / module package
            for c in list(discard | changed):
                if c.startswith(("apps.", "modules.")):
                    r = root_of(c)
                    for l in self.loaded:
                        if (l == r or l.startswith(r + ".")) and l not in discard:
                            discard.add(l)
                            grew = True
                    if c.startswith("modules.") and r not in mod_roots:
                        mod_roots.add(r)
                        grew = True
            # everything that imports a changed module, directly or transitively
            for l in self.loaded:
                if l in discard:
                    continue
                if any(root_of(i) in mod_roots for i in self.transitive_imports(l) if i.startswith("modules.")):
                    discard.add(l)
                    grew = True
        for c in discard:
            self.loaded.pop(c)
        events = []
        todo = sorted(c for c in auto if c in discard or c not in self.loaded or global_ctx == "*")
        if global_ctx not in (None, "*"):
            todo = sorted(c for c in auto if c in discard or (c == global_ctx and c not in self.loaded))
        for ctx in todo:
            if ctx not in self.loaded:
                self._try_execute(ctx, events)
        return discard, events
