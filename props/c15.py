"""C15 — task.wait_until returns for the first qualifying trigger and always cleans up (E1 + E4, both subsystems)."""

import itertools

from mc import explore as EX
from mc.result import Shard
from ref import timeline as TL

PID = "C15"
LEVEL = "model_checking"
RULE = (
    "every combination of task.wait_until arguments from {state_trigger: none / expression / any-change name} x "
    "{time_trigger: none / once(now + 5s) / past once / period(now + 3s, 4s)} x {event_trigger: none / plain / filtered / "
    "raising filter} x {mqtt / webhook / neither} x {timeout: none / 0 / 4.5} x {state_check_now unset / False} x "
    "{state_hold none / 10.5} (combinations without any argument excluded), x one occurrence before the call x every "
    "history of the tier's length after the call over {watched change to true / to false, matching and non-matching "
    "event, MQTT message, webhook request, 2 s and 4 s of virtual time, kill by task.cancel, kill by task.unique} x "
    "both subsystems. Oracle: the first-qualifying-trigger model (state part = reference timeline of C05, time "
    "triggers = documented instants, timeout, 'none') gives the virtual return time and the returned dictionary; on "
    "every exit path (return, exception in a condition, cancellation at that instant) the resource census after the "
    "task ended equals the census before the call. distinct = distinct (arguments, outcome); non-trivial = the call "
    "returned a trigger or was killed while waiting"
)
ASSUMPTIONS = [
    "event times lie on an even-integer grid; time triggers fire at odd instants, timeout 4.5 s, hold 10.5 s: no ties",
    "state part of the model is ref/timeline.py with state_check_now defaulting to True for task.wait_until",
]
MAXTASKS = 40

EXPR = "pyscript.a in ['1', '2']"
STATE = [None, "expr", "any"]
TIME = [None, "future", "past", "period"]
EVENT = [None, "plain", "filter", "raising"]
OTHER = [None, "mqtt", "webhook"]
TIMEOUT = [None, 0, 4.5]
HOLD = [None, 10.5]
CHECKNOW = [None, False]

ACTIONS = ["T", "T2", "F", "EV1", "EV2", "MQ", "WH", "ADV2", "ADV4", "KILL", "KILLU"]
HORIZON = 30.0


def configs(tier):
    out = []
    for st, tm, ev, ot, to in itertools.product(STATE, TIME, EVENT, OTHER, TIMEOUT):
        if st is None and tm is None and ev is None and ot is None:
            continue
        holds = HOLD if st == "expr" else [None]
        cns = CHECKNOW if st == "expr" else [None]
        for hold, cn in itertools.product(holds, cns):
            out.append((st, tm, ev, ot, to, hold, cn))
    # conditions that cannot even be set up (syntax error in a filter expression) next to ones that can: the call raises
    # at once and must leave nothing behind
    extra = [(st, None, ev, ot, None, None, None) for st in (None, "expr", "any") for ev in (None, "plain", "syntax")
             for ot in (None, "mqtt", "webhook", "mqtt_syntax", "webhook_syntax") if "syntax" in (ev or "") + (ot or "")]
    if tier == "quick":
        # quick: every pair of trigger kinds, at most two kinds at once; timeout/hold/check_now varied only with one kind
        out = [c for c in out if sum(x is not None for x in c[:4]) <= 2
               and (sum(x is not None for x in c[:4]) == 1 or (c[4] in (None, 4.5) and c[5] is None and c[6] is None))]
    return out + extra


def wait_args(cfg):
    st, tm, ev, ot, to, hold, cn = cfg
    a = []
    if st == "expr":
        a.append(f'state_trigger="{EXPR}"')
    elif st == "any":
        a.append('state_trigger="pyscript.a"')
    if tm == "future":
        a.append('time_trigger="once(now + 5s)"')
    elif tm == "past":
        a.append('time_trigger="once(2020/1/1 00:00)"')
    elif tm == "period":
        a.append('time_trigger="period(now + 3s, 4s)"')
    if ev == "plain":
        a.append('event_trigger="ev1"')
    elif ev == "filter":
        a.append('event_trigger=["ev1", "arg == 1"]')
    elif ev == "raising":
        a.append('event_trigger=["ev1", "undefined_func(arg)"]')
    elif ev == "syntax":
        a.append('event_trigger=["ev1", "arg ==== 1"]')
    if ot == "mqtt":
        a.append('mqtt_trigger="t/a"')
    elif ot == "webhook":
        a.append('webhook_trigger="hookW"')
    elif ot == "mqtt_syntax":
        a.append('mqtt_trigger=["t/a", "payload ==== 1"]')
    elif ot == "webhook_syntax":
        a.append('webhook_trigger=["hookW", "payload ==== 1"]')
    if to is not None:
        a.append(f"timeout={to}")
    if hold is not None:
        a.append(f"state_hold={hold}")
    if cn is not None:
        a.append(f"state_check_now={cn}")
    return ", ".join(a)


def script(cfg):
    return f'''
calls = []
TASKS = {{}}
@service
def go():
    task.unique("w")
    TASKS["go"] = task.current_task()
    calls.append(("call", NOW()))
    try:
        r = task.wait_until({wait_args(cfg)})
    except Exception as e:
        calls.append(("exc", NOW(), type(e).__name__))
        return
    v = r.get("value")
    tt = r.get("trigger_time")
    p = r.get("payload")
    calls.append(("ret", NOW(), r.get("trigger_type"), r.get("var_name") or r.get("event_type") or r.get("topic") or r.get("webhook_id"),
                  None if v is None else str(v), r.get("arg"), None if tt is None else TOFF(tt), None if p is None else str(p)))

@service
def kill():
    task.cancel(TASKS["go"])

@service
def killu():
    task.unique("w")
'''


def reference(cfg, init_true, pre, hist):
    """Returns ('ret', t, type, ident, value, arg, toff, payload) / ('exc', t, name) / ('killed', t) / ('waiting',).

    Everything that can end the wait is a candidate (time, order, record).  `order` is the index of the history
    action that causes it; a timer gets the index of the time advance during which it fires (-1 = at the call
    itself, len(hist) = during the final horizon).  Times never tie between timers and events (grid), so the
    order only arbitrates between things caused by the call itself and between history actions at one instant."""
    st, tm, ev, ot, to, hold, cn = cfg
    if "syntax" in (ev or "") + (ot or ""):
        return ("exc", 0.0, "SyntaxError")
    cands = []
    t = 0.0
    a = "1" if init_true else "0"
    evals = []  # (time, truth, args, action index)
    spans = []  # (t_from, t_to, action index) for time advances
    for i, act in enumerate(hist):
        if act in ("ADV2", "ADV4"):
            d = 2.0 if act == "ADV2" else 4.0
            spans.append((t, t + d, i))
            t += d
        elif act == "T":
            if a != "1":
                a = "1"
                evals.append((t, True, ("pyscript.a", "1"), i))
        elif act == "T2":
            # a second value for which the expression is true as well: a further true evaluation
            if a != "2":
                a = "2"
                evals.append((t, True, ("pyscript.a", "2"), i))
        elif act == "F":
            if a != "0":
                a = "0"
                evals.append((t, False, ("pyscript.a", "0"), i))
        elif act == "EV1" and ev is not None:
            cands.append((t, i, ("exc", t, "NameError") if ev == "raising" else ("ret", t, "event", "ev1", None, 1, None, None)))
        elif act == "EV2" and ev in ("plain", "raising"):
            cands.append((t, i, ("exc", t, "NameError") if ev == "raising" else ("ret", t, "event", "ev1", None, 2, None, None)))
        elif act == "MQ" and ot == "mqtt":
            cands.append((t, i, ("ret", t, "mqtt", "t/a", None, None, None, "on")))
        elif act == "WH" and ot == "webhook":
            cands.append((t, i, ("ret", t, "webhook", "hookW", None, None, None, "{'k': 'v'}")))
        elif act in ("KILL", "KILLU"):
            cands.append((t, i, ("killed", t)))
    spans.append((t, t + HORIZON, len(hist)))

    def timer_order(tt):
        if tt <= 0.0:
            return -1
        for lo, hi, idx in spans:
            if lo < tt <= hi:
                return idx
        return None

    def add_timer(tt, rec, prio=0.5):
        o = timer_order(tt)
        if o is not None:
            cands.append((tt, o - prio if o >= 0 else -1 - prio, rec))

    if st == "expr":
        check_now = True if cn is None else bool(cn)
        occ = TL.occurrences(check_now, hold, None, init_true, [(tt, ok, (args, idx)) for tt, ok, args, idx in evals], t + HORIZON)
        for (tt, args) in occ[:1]:
            if args == TL.INITIAL_ARGS:
                rec = ("ret", tt, "state", None, None, None, None, None)
                if hold is None:
                    cands.append((tt, -2, rec))  # immediately at the call, before anything else
                else:
                    add_timer(tt, rec)
            else:
                (name, val), idx = args
                rec = ("ret", tt, "state", name, val, None, None, None)
                if hold is None:
                    cands.append((tt, idx, rec))
                else:
                    add_timer(tt, rec)
    elif st == "any":
        for (tt, ok, args, idx) in evals[:1]:
            cands.append((tt, idx, ("ret", tt, "state", args[0], args[1], None, None, None)))
    if tm == "future":
        add_timer(5.0, ("ret", 5.0, "time", None, None, None, 5.0, None))
    elif tm == "period":
        add_timer(3.0, ("ret", 3.0, "time", None, None, None, 3.0, None))
    if to is not None:
        add_timer(float(to), ("ret", float(to), "timeout", None, None, None, None, None), prio=0.25)
    only_time = st is None and ev is None and ot is None
    if only_time and tm == "past" and to is None:
        return ("ret", 0.0, "none", None, None, None, None, None)
    if not cands:
        return ("waiting",)
    return sorted(cands, key=lambda c: (c[0], c[1]))[0][2]


def run_impl(cfg, legacy, init_true, pre, hist):
    from mc.world import World

    w = World({"hello.py": script(cfg)}, legacy=legacy)
    try:
        hs = w.hass.states
        hs.async_set("pyscript.a", "1" if init_true else "0", {})
        w.settle()
        if pre == "EV1":
            w.fire("ev1", {"arg": 1})
        elif pre == "T":
            hs.async_set("pyscript.a", "0" if init_true else "1", {})
            w.settle()
            hs.async_set("pyscript.a", "1" if init_true else "0", {})
        w.settle()
        base = census(w)
        t0 = w.elapsed()
        wall0 = w.now()
        g = w.g()
        g["NOW"] = lambda: round(w.elapsed() - t0, 3)
        g["TOFF"] = lambda tt: round((tt - wall0).total_seconds(), 3)
        task = w.start_service("pyscript", "go", {})
        w.settle()
        a = "1" if init_true else "0"
        for act in hist:
            if act == "ADV2":
                w.advance(2)
            elif act == "ADV4":
                w.advance(4)
            elif act == "T":
                a = "1"
                hs.async_set("pyscript.a", "1", {})
            elif act == "T2":
                a = "2"
                hs.async_set("pyscript.a", "2", {})
            elif act == "F":
                a = "0"
                hs.async_set("pyscript.a", "0", {})
            elif act == "EV1":
                w.fire("ev1", {"arg": 1})
            elif act == "EV2":
                w.fire("ev1", {"arg": 2})
            elif act == "MQ":
                w.broker.publish(w.loop, "t/a", "on")
            elif act == "WH":
                w.webhook("hookW", {"k": "v"})
            elif act == "KILL":
                if "go" in g["TASKS"] and not g["TASKS"]["go"].done():
                    w.start_service("pyscript", "kill", {})
            elif act == "KILLU":
                w.start_service("pyscript", "killu", {})
            w.settle()
        w.advance(HORIZON)
        calls = [tuple(c) for c in g["calls"]]
        go_task = g["TASKS"].get("go")
        ended = go_task is not None and go_task.done()
        w.collect()
        cen = census(w) if ended else None
        errs = [repr(e)[:200] for e in w.errors]
        return calls, ended, base, cen, errs
    finally:
        w.close()


def census(w):
    c = w.census()
    c.pop("tasks", None)
    return c


def census_diff(a, b):
    out = {}
    for k in sorted(set(a) | set(b)):
        x, y = a.get(k), b.get(k)
        if x != y:
            out[k] = {kk: (x.get(kk), y.get(kk)) for kk in sorted(set(x) | set(y)) if x.get(kk) != y.get(kk)} if isinstance(x, dict) and isinstance(y, dict) else (x, y)
    return out


def check(cfg, legacy, init_true, pre, hist):
    exp = reference(cfg, init_true, pre, hist)
    calls, ended, base, cen, errs = run_impl(cfg, legacy, init_true, pre, hist)
    rets = [c for c in calls if c[0] in ("ret", "exc")]
    fail = None
    if exp[0] in ("ret", "exc"):
        want = tuple(exp)
        got = rets[0] if rets else None
        if got is not None and got[0] == "ret":
            got = tuple(got)
        if got != want:
            kind = "no-return" if got is None else ("wrong-time" if got[:1] == want[:1] and got[1] != want[1] else "wrong-result")
            fail = {"kind": kind, "expected": want, "observed": got}
    elif exp[0] == "killed":
        if rets:
            fail = {"kind": "returned-although-killed", "expected": exp, "observed": rets[0]}
        elif not ended:
            fail = {"kind": "not-ended-after-kill", "expected": exp, "observed": calls}
    else:  # waiting
        if rets:
            fail = {"kind": "unexpected-return", "expected": exp, "observed": rets[0]}
    if fail is None and ended and cen != base:
        path = {"ret": "return", "exc": "exception", "killed": "kill"}.get(exp[0], exp[0])
        fail = {"kind": f"leak-after-{path}", "expected": "census before the call", "observed": census_diff(base, cen)}
    if fail is None and errs:
        fail = {"kind": "loop-exception", "observed": errs}
    return fail, exp, calls


def sig(cfg, legacy, fail):
    st, tm, ev, ot, to, hold, cn = cfg
    feats = []
    if fail["kind"].startswith("leak"):
        leaked = sorted(fail["observed"].keys()) if isinstance(fail["observed"], dict) else []
        feats.append("leaks=" + "+".join(leaked))
    else:
        feats.append(f"timeout={to}")
        feats.append(f"time={tm}")
    return f"{'legacy' if legacy else 'new'}|{fail['kind']}|" + "|".join(feats)


def bounds(tier):
    return {"configs": len(configs(tier)), "history_length": 3 if tier == "thorough" else 2, "actions": ACTIONS,
            "pre_call_occurrences": ["none", "EV1", "T"], "horizon_s": HORIZON}


def histories(tier):
    depth = 3 if tier == "thorough" else 2
    out = []
    for d in range(0, depth + 1):
        out += list(itertools.product(ACTIONS, repeat=d))
    return out


def plan(tier, seed):
    n = len(configs(tier))
    per = 4 if tier == "thorough" else 1
    return [(tier, ci, legacy, k, per) for ci in range(n) for legacy in (False, True) for k in range(per)]


def run_shard(shard):
    tier, ci, legacy, k, per = shard
    cfg = configs(tier)[ci]
    res = Shard()
    i = -1
    for hist in histories(tier):
        # kills only make sense once; nothing is compared after the first kill except clean-up
        if sum(1 for a in hist if a in ("KILL", "KILLU")) > 1:
            continue
        for init_true, pre in (((False, None), (True, None), (False, "EV1"), (False, "T")) if tier == "thorough" or len(hist) < 2
                               else ((False, None), (True, None))):
            if cfg[0] is None and (init_true or pre == "T"):
                continue
            if cfg[2] is None and pre == "EV1":
                continue
            if "syntax" in (cfg[2] or "") + (cfg[3] or "") and init_true and cfg[0] == "expr":
                continue  # an immediate state return and the set-up error compete: which one wins is not specified
            i += 1
            if i % per != k:
                continue
            fail, exp, calls = check(cfg, legacy, init_true, pre, hist)
            case = {"cfg": list(cfg), "legacy": legacy, "init_true": init_true, "pre": pre, "hist": list(hist)}
            res.case((cfg, exp), nontrivial=exp[0] in ("ret", "killed") and exp[1:2] != (0.0,), transitions=len(hist) + 1,
                     config="legacy" if legacy else "new", sample=case)
            if fail:
                res.fail(sig(cfg, legacy, fail), case, expected=fail.get("expected"), observed=fail.get("observed"), detail=fail)
    return res


def replay(case):
    fail, exp, calls = check(tuple(case["cfg"]), case["legacy"], case["init_true"], case["pre"], tuple(case["hist"]))
    return {"ok": fail is None, "failure": fail, "expected": exp, "calls": calls, "wait_args": wait_args(tuple(case["cfg"]))}
