"""C17 — import and builtin restrictions hold for every import form (E3)."""

import builtins
import os
import pkgutil
import shutil
import sys
import tempfile
import types

from mc.result import Shard

PID = "C17"
LEVEL = "model_checking"
PRELOAD = False
RULE = (
    "names = every stdlib module name, every built-in module name, every top-level package/module found on sys.path by a "
    "file-system scan (no imports), the allow-list, the direct submodules of a fixed package list, near-misses of "
    "allow-listed names (prefixes, suffixes, dotted children, parents) and names of files placed under pyscript/modules and "
    "pyscript/apps; for every name every import statement form {import a, import a as x, from a import b, from a import *, "
    "and the dotted variants} executed directly, through exec() of source text and inside a function body, alone and next to an allow-listed name in the same statement, with allow_all_imports off and on and with hass_is_global on (thorough: plus the direct submodules of every package found on sys.path). "
    "Oracle: the documented allow-list predicate - not allow-listed, not a pyscript module, option off => "
    "ModuleNotFoundError and an unchanged symbol table; allow-listed / pyscript module => bound and usable; option on => "
    "the interpreter obtains exactly that module (sys.modules entry or one importlib.import_module call with exactly that "
    "name, recorded by a shim); 'from stubs[...] import' binds nothing and raises nothing. Builtins: every name of "
    "dir(builtins) as plain name, via eval('name'), inside a function: open, compile, input, breakpoint, memoryview and "
    "the real print are never obtained; print/log.* write to the script's logger. distinct = distinct (name class, form, "
    "option, outcome); non-trivial = the import was rejected or bound a module"
)
ASSUMPTIONS = [
    "with allow_all_imports on, modules not yet in sys.modules are not imported for real (side effects): a recording shim "
    "stands in for importlib.import_module and the requested name is compared",
    "relative imports are covered by C11",
]
MAXTASKS = 30

EXCLUDED = ["open", "compile", "input", "breakpoint", "memoryview", "print"]
TIER = ["quick"]


def all_names():
    from custom_components.pyscript.const import ALLOWED_IMPORTS

    names = set(sys.stdlib_module_names) | set(sys.builtin_module_names) | set(ALLOWED_IMPORTS)
    for m in pkgutil.iter_modules():  # file-system scan of sys.path, nothing is imported
        names.add(m.name)
    for pkg in ("json", "homeassistant", "os", "importlib", "xml", "email", "voluptuous", "concurrent"):
        spec_paths = []
        for p in sys.path:
            d = os.path.join(p, pkg)
            if os.path.isdir(d):
                spec_paths.append(d)
        for m in pkgutil.iter_modules(spec_paths):
            names.add(f"{pkg}.{m.name}")
    if TIER[0] == "thorough":
        # the direct submodules of EVERY package found on sys.path (directory scan only)
        for p in sys.path:
            if not os.path.isdir(p):
                continue
            for entry in sorted(os.listdir(p)):
                d = os.path.join(p, entry)
                if entry.isidentifier() and os.path.isfile(os.path.join(d, "__init__.py")):
                    for m in pkgutil.iter_modules([d]):
                        names.add(f"{entry}.{m.name}")
    for a in sorted(ALLOWED_IMPORTS):
        names.update({a + "x", a[:-1], "x" + a, a + ".sub", a.split(".")[0], a.upper()})
    names.update({"pmod", "ppkg", "ppkg.sib", "papp", "modules.pmod", "nosuchmodule_zz", "os.path", "builtins", "sys", "subprocess"})
    names.discard("")
    return sorted(n for n in names if all(part.isidentifier() for part in n.split(".")))


def forms(name):
    last = name.split(".")[-1]
    out = [("import", f"import {name}"), ("import_as", f"import {name} as x_alias"),
           ("from_star", f"from {name} import *"), ("from_attr", f"from {name} import __name__ as got_name")]
    if "." in name:
        parent, child = name.rsplit(".", 1)
        out.append(("from_parent", f"from {parent} import {child}"))
    # several names in one statement are checked one by one (an allow-listed neighbour changes nothing)
    out.append(("import_after_allowed", f"import math, {name}"))
    out.append(("import_before_allowed", f"import {name}, math as m_alias"))
    return out


class Env:
    """Interpreter environment with a real pyscript folder (modules/apps files) and an import shim."""

    def __init__(self):
        from custom_components.pyscript import eval as EV
        from custom_components.pyscript.const import CONFIG_ENTRY, DOMAIN
        from custom_components.pyscript.decorator import DecoratorRegistry
        from custom_components.pyscript.function import Function
        from custom_components.pyscript.global_ctx import GlobalContextMgr
        from custom_components.pyscript.state import State

        self.EV = EV
        self.base = tempfile.mkdtemp(prefix=f"verif-imp-{os.getpid()}-", dir="/dev/shm" if os.path.isdir("/dev/shm") else None)
        ps = os.path.join(self.base, "pyscript")
        for rel, src in {"modules/pmod.py": "VAL = 'pmod'\n", "modules/ppkg/__init__.py": "VAL = 'ppkg'\n",
                         "modules/ppkg/sib.py": "VAL = 'sib'\n", "apps/papp/__init__.py": "VAL = 'papp'\n",
                         # pyscript modules named like installed modules (one allow-listed, one not) take precedence
                         "modules/random.py": "VAL = 'ps-random'\n", "modules/shutil.py": "VAL = 'ps-shutil'\n",
                         # stub files that really exist are still ignored by 'from stubs... import'
                         "modules/stubs/__init__.py": "marker = 'STUB-LOADED'\n",
                         "modules/stubs/pyscript_builtins.py": "state = 'STUB-LOADED'\nlog = 'STUB-LOADED'\n",
                         "modules/stubs/pyscript_generated.py": "anything = 'STUB-LOADED'\n"}.items():
            fp = os.path.join(ps, rel)
            os.makedirs(os.path.dirname(fp), exist_ok=True)
            open(fp, "w").write(src)
        self.entry = types.SimpleNamespace(data={})

        async def inline(func, *a):
            return func(*a)

        self.hass = types.SimpleNamespace(
            data={DOMAIN: {CONFIG_ENTRY: self.entry}}, async_add_executor_job=inline,
            states=types.SimpleNamespace(get=lambda n: None), services=types.SimpleNamespace(has_service=lambda d, s: False),
            config=types.SimpleNamespace(path=lambda *a: os.path.join(self.base, *a)))
        Function.hass = self.hass
        State.hass = self.hass
        Function.functions.clear()
        Function.ast_functions.clear()
        Function.ast_functions.update({
            "log.info": lambda ast_ctx: ast_ctx.get_logger().info,
            "log.error": lambda ast_ctx: ast_ctx.get_logger().error,
            "print": lambda ast_ctx: ast_ctx.get_logger().debug,
        })
        DecoratorRegistry._decorators = {}
        self.mgr = GlobalContextMgr
        self.requested = []
        shim = types.SimpleNamespace(import_module=self._import_module)
        self._orig_importlib = EV.importlib
        EV.importlib = shim

    def _import_module(self, name):
        self.requested.append(name)
        m = types.ModuleType(name)
        m.SHIM = True
        return m

    def run(self, src, allow, hass_is_global=False):
        from custom_components.pyscript.eval import AstEval
        from custom_components.pyscript.function import Function
        from custom_components.pyscript.global_ctx import GlobalContext
        from mc.progdiff import drive

        self.entry.data = {"allow_all_imports": allow, "hass_is_global": hass_is_global}
        self.mgr.contexts.clear()
        self.requested.clear()
        g = {"MARK": 1}
        ctx = GlobalContext("file.t", global_sym_table=g, manager=self.mgr)
        a = AstEval("file.t", ctx)
        Function.install_ast_funcs(a)
        exc = None
        try:
            a.parse(src)
            drive(a.eval())
        except Exception as e:  # noqa
            exc = type(e).__name__
        bound = {k: v for k, v in g.items() if k != "MARK"}
        return exc, bound, list(self.requested)

    def run_two(self, src1, allow1, src2, allow2):
        """Two statements in ONE evaluator with the option changed in between the way Home Assistant does it (the entry gets a
        new data mapping)."""
        from custom_components.pyscript.eval import AstEval
        from custom_components.pyscript.function import Function
        from custom_components.pyscript.global_ctx import GlobalContext
        from mc.progdiff import drive

        self.entry.data = {"allow_all_imports": allow1}
        self.mgr.contexts.clear()
        g = {"MARK": 1}
        ctx = GlobalContext("file.t", global_sym_table=g, manager=self.mgr)
        a = AstEval("file.t", ctx)
        Function.install_ast_funcs(a)
        out = []
        for src, allow in ((src1, allow1), (src2, allow2)):
            self.entry.data = {"allow_all_imports": allow}
            self.requested.clear()
            exc = None
            try:
                a.parse(src)
                drive(a.eval())
            except Exception as e:  # noqa
                exc = type(e).__name__
            out.append((exc, list(self.requested)))
        return out

    def close(self):
        self.EV.importlib = self._orig_importlib
        shutil.rmtree(self.base, ignore_errors=True)


PYSCRIPT_MODULES = {"pmod", "ppkg", "ppkg.sib", "random", "shutil"}  # importable pyscript modules from a file context (apps only from apps)


def expected(name, form, allow):
    """Returns ('error',) or ('ok',)."""
    from custom_components.pyscript.const import ALLOWED_IMPORTS

    if form == "from_parent":
        mod = name.rsplit(".", 1)[0]
    else:
        mod = name
    if mod in PYSCRIPT_MODULES or mod in ALLOWED_IMPORTS or allow:
        return "ok"
    return "error"


def check_name(res, env, name):
    from custom_components.pyscript.const import ALLOWED_IMPORTS as ALLOWED

    for form, stmt in forms(name):
        for via in ("direct", "exec", "func"):
            if via == "func" and form == "from_star":
                continue  # 'import *' is only allowed at module level
            src = stmt if via == "direct" else f"exec({stmt!r})"
            if via == "func":
                src = f"def f_imp():\n    {stmt}\n    return 1\nr_imp = f_imp()"
            for allow, hig in ((False, False), (True, False), (False, True)):
                exc, bound, requested = env.run(src, allow, hig)
                if via == "func":
                    bound = {k: v for k, v in bound.items() if k not in ("f_imp", "r_imp")}
                exp = expected(name, form, allow)
                mod = name.rsplit(".", 1)[0] if form == "from_parent" else name
                obs = (exc, tuple(sorted(bound)), tuple(requested))
                case = {"name": name, "form": form, "via": via, "allow": allow, "src": src, "hass_is_global": hig}
                drop = ("math", "m_alias", "hass") if form in ("import_after_allowed", "import_before_allowed") and name != "math" else ("hass",)
                bound = {k: v for k, v in bound.items() if k not in drop}
                if "math" in drop:
                    requested = [r for r in requested if r != "math"]
                res.case((expected_class(name), form, via, allow, hig, exc, bool(bound)), nontrivial=True, config=form, sample=case)
                fail = None
                if form == "from_parent" and not allow and name not in ALLOWED and name not in PYSCRIPT_MODULES and name in requested:
                    fail = {"kind": "unlisted-submodule-imported", "expected": [], "observed": obs}
                elif exp == "error":
                    if exc != "ModuleNotFoundError":
                        fail = {"kind": "not-rejected", "expected": "ModuleNotFoundError", "observed": obs}
                    elif bound:
                        fail = {"kind": "rejected-but-bound", "expected": {}, "observed": obs}
                    elif requested:
                        fail = {"kind": "rejected-but-import-attempted", "observed": obs}
                else:
                    # allowed: either it worked, or the module genuinely has no such attribute / does not exist
                    if exc == "ModuleNotFoundError" and (mod in PYSCRIPT_MODULES or not allow):
                        if mod in sys.modules or mod in PYSCRIPT_MODULES:
                            fail = {"kind": "allowed-but-rejected", "observed": obs}
                    if allow and mod not in sys.modules and mod not in PYSCRIPT_MODULES and requested != [mod]:
                        fail = {"kind": "wrong-module-requested", "expected": [mod], "observed": obs}
                    if exc is None and via != "func" and form in ("import", "import_as", "from_attr") and not bound:
                        fail = {"kind": "allowed-but-nothing-bound", "observed": obs}
                if fail:
                    res.fail(f"{fail['kind']}|{form}|{via}|allow={allow}|{expected_class(name)}", case,
                             expected=fail.get("expected"), observed=fail.get("observed"))


def expected_class(name):
    from custom_components.pyscript.const import ALLOWED_IMPORTS

    if name in ALLOWED_IMPORTS:
        return "allow-listed"
    if name in PYSCRIPT_MODULES:
        return "pyscript-module"
    if any(name.startswith(a + ".") or a.startswith(name + ".") or name.startswith(a) or a.startswith(name) for a in ALLOWED_IMPORTS):
        return "near-miss"
    return "other"


def check_stubs(res, env):
    for src in ("from stubs import anything", "from stubs.pyscript_builtins import state, log", "from stubs.pyscript_generated import *"):
        for allow in (False, True):
            exc, bound, requested = env.run(src, allow)
            case = {"name": "stubs", "src": src, "allow": allow}
            res.case(("stubs", src, allow, exc), nontrivial=True, config="stubs", sample=case)
            if exc is not None or bound or requested:
                res.fail("stubs-not-ignored", case, expected=(None, {}, []), observed=(exc, sorted(bound), requested))


def check_shadow(res, env):
    """A pyscript module named like an installed module is the one that gets imported, in every form and with either option."""
    for name in ("random", "shutil", "pmod"):
        for form, src, key in (("import", f"import {name}", name), ("import_as", f"import {name} as q", "q"),
                               ("from", f"from {name} import VAL as q", "q"), ("exec", f"exec('import {name} as q')", "q"),
                               ("func", f"def f_imp():\n    import {name}\n    return {name}\nq = f_imp()", "q")):
            for allow in (False, True):
                exc, bound, requested = env.run(src, allow)
                got = bound.get(key)
                val = got if isinstance(got, str) else getattr(got, "VAL", None)
                case = {"name": name, "form": form, "allow": allow, "src": src, "shadow": True}
                res.case(("shadow", name, form, allow, exc, val), nontrivial=True, config="shadow", sample=case)
                if exc is not None or val != ("ps-" + name if name != "pmod" else "pmod") or requested:
                    res.fail(f"pyscript-module-not-preferred|{form}|allow={allow}", case, expected="the pyscript module", observed=(exc, val, requested))


def check_option_change(res, env):
    """allow_all_imports is read when the import statement runs, also by an evaluator created before the option changed."""
    for name in ("subprocess", "nosuch_pkg_zz.sub"):
        for form, src in (("import", f"import {name}"), ("import_as", f"import {name} as q"), ("from", f"from {name} import x as q")):
            for first, second in ((False, True), (True, False)):
                out = env.run_two(src, first, src, second)
                case = {"name": name, "form": form, "option": [first, second], "src": src, "option_change": True}
                res.case(("optchange", form, first, second, tuple(o[0] for o in out)), nontrivial=True, config="option-change", sample=case)
                for (exc, requested), allow in zip(out, (first, second)):
                    ok = (exc is None or exc in ("ImportError", "AttributeError")) if allow else (exc == "ModuleNotFoundError" and not requested)
                    if allow and name.split(".")[0] not in sys.modules and not requested:
                        ok = False
                    if not ok:
                        res.fail(f"stale-option|{form}|{first}->{second}", case, expected=f"behaviour of allow_all_imports={allow}", observed=out)
                        break


def check_builtins(res, env):
    import logging

    real = {n: getattr(builtins, n) for n in dir(builtins)}
    for n in sorted(real):
        for via, src in (("plain", f"got = {n}"), ("eval", f"got = eval({n!r})"), ("func", f"def f():\n    return {n}\ngot = f()"),
                         ("exec", f"exec('got = {n}')"), ("global", f"def f():\n    global {n}\n    return {n}\ngot = f()"),
                         ("shadow_del", f"{n} = 1\ndel {n}\ngot = {n}"),
                         ("method", f"class C:\n    def m(self):\n        return {n}\nc = C()\ngot = c.m()")):
            if not n.isidentifier() or n in ("None", "True", "False", "__debug__"):
                continue
            exc, bound, _ = env.run(src, False)
            got = bound.get("got", "<unbound>")
            case = {"builtin": n, "via": via, "src": src}
            res.case(("builtin", n in EXCLUDED, via, exc), nontrivial=n in EXCLUDED, config="builtins", sample=case)
            if n in EXCLUDED and got is real[n]:
                res.fail(f"excluded-builtin-reachable|{n}|{via}", case, expected="not the real builtin", observed=repr(got))
            if via not in ("global",) and n not in EXCLUDED and not n.startswith("_") and n not in ("eval", "exec", "globals", "locals") and exc is None and got is not real[n]:
                res.fail(f"builtin-replaced|{n}|{via}", case, expected=repr(real[n]), observed=repr(got))
    # print / log write to the script's logger
    records = []

    class H(logging.Handler):
        def emit(self, record):
            records.append((record.name, record.levelname, record.getMessage()))

    lg = logging.getLogger("custom_components.pyscript.file.t")
    old_level, old_disable = lg.level, logging.root.manager.disable
    logging.disable(logging.NOTSET)
    lg.setLevel(logging.DEBUG)
    h = H()
    lg.addHandler(h)
    try:
        exc, bound, _ = env.run("print('hello-print')\nlog.info('hello-info')\nlog.error('hello-error')", False)
    finally:
        lg.removeHandler(h)
        lg.setLevel(old_level)
        logging.disable(old_disable)
    want = [("custom_components.pyscript.file.t", "DEBUG", "hello-print"), ("custom_components.pyscript.file.t", "INFO", "hello-info"),
            ("custom_components.pyscript.file.t", "ERROR", "hello-error")]
    case = {"builtin": "print/log"}
    res.case(("printlog", tuple(records)), nontrivial=True, config="builtins", sample=case)
    if exc is not None or records != want:
        res.fail("print-log-not-on-script-logger", case, expected=want, observed=(exc, records))


def bounds(tier):
    TIER[0] = tier
    return {"names": len(all_names()), "forms": 5, "via": ["direct", "exec", "inside a function"], "options": [False, True], "builtins": len(dir(builtins))}


def plan(tier, seed):
    n = 16 if tier == "quick" else 64
    return [("names", tier, k, n) for k in range(n)] + [("builtins",)]


def run_shard(shard):
    res = Shard()
    env = Env()
    try:
        if shard[0] == "builtins":
            check_builtins(res, env)
            check_stubs(res, env)
            check_shadow(res, env)
            check_option_change(res, env)
        else:
            _, tier, k, n = shard
            TIER[0] = tier
            for i, name in enumerate(all_names()):
                if i % n == k:
                    check_name(res, env, name)
    finally:
        env.close()
    return res


def replay(case):
    env = Env()
    try:
        res = Shard()
        if "builtin" in case:
            check_builtins(res, env)
            fails = [f for f in res.failures if f["case"].get("builtin") == case["builtin"]]
        elif case.get("name") == "stubs":
            check_stubs(res, env)
            fails = res.failures
        elif case.get("shadow"):
            check_shadow(res, env)
            fails = [f for f in res.failures if f["case"]["src"] == case["src"] and f["case"]["allow"] == case["allow"]]
        elif case.get("option_change"):
            check_option_change(res, env)
            fails = [f for f in res.failures if f["case"]["src"] == case["src"] and f["case"]["option"] == case["option"]]
        else:
            check_name(res, env, case["name"])
            fails = [f for f in res.failures if f["case"]["src"] == case["src"] and f["case"]["allow"] == case["allow"]
                     and f["case"].get("hass_is_global", False) == case.get("hass_is_global", False)]
        return {"ok": not fails, "failures": [{"sig": f["sig"], "observed": repr(f["observed"])[:300]} for f in fails[:3]]}
    finally:
        env.close()
