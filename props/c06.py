"""C06 — time triggers fire at exactly the instants their specification denotes (E3 + E1, both subsystems)."""

import collections
import datetime as dt
import itertools

from mc.result import Shard
from ref import calendar as cal

PID = "C06"
LEVEL = "model_checking"
RULE = (
    "(a) successor function: every specification of the generated grammar {once() x 10 date forms (full dates incl. both "
    "DST days, a leap day and a year end; mm/dd; weekday names and abbreviations; today; tomorrow; omitted) x 8 time "
    "forms (h:m, h:m:s, h:m:s.f, noon, midnight, sunrise, sunset, omitted) x 6 offsets (none, + 90s, - 30 min, + 1.5 h, "
    "+1d, -1w); once(now +/- offset); period() with fixed, now-based and self-consistent time-only starts x 7 intervals, "
    "with and without (fixed / now-based / time-only, wrapping, sun-based) ends; cron() with the product of field shapes "
    "{*, n, a-b, a,b, */n} per field} x every breakpoint `now` derived from the oracle (each denoted instant around 10 "
    "anchors - both DST jumps, leap day, year end, month end, startup, ordinary days - minus 1 us, exact, plus 1 us; every "
    "local midnight around them +/- 1 us; the anchors themselves) and all lists of 2 and 3 specifications from a pool. "
    "TrigTime.timer_trigger_next on the real code against an independent calendar/cron denotation (ref/calendar.py): the "
    "result is the least denoted instant strictly after now (or none), the minimum over a list, the wait next_adj - now "
    "is the real elapsed time; oracle-free laws on the iterated function: strictly increasing, idempotent at the midpoint "
    "between two consecutive results. (b) running triggers: @time_trigger functions and task.wait_until(time_trigger=) "
    "loops in a fresh Home Assistant on the virtual clock, stepped through every timer over 2 h .. 9 days across both DST "
    "days, month/year ends, the leap day and ordinary days, with wall-clock skew deviations {-1 ms, -1 us, 0, +1 ms} set "
    "after the wait was computed, redefinition / removal / Home Assistant stop operations for startup and shutdown "
    "entries; oracle: exactly one run per denoted instant inside the definition's lifetime, at that instant of the wall "
    "clock (never early by more than the code's 1 us tolerance), trigger_time equal to it, 'startup' / 'shutdown' once per "
    "definition / removal. distinct = distinct (specification list, now or scenario, result); non-trivial = a next time "
    "or at least one run exists"
)
ASSUMPTIONS = [
    "denotations are those of DESIGN Appendix A.1: yearless dates yearly, weekday dates weekly, dateless daily, today/tomorrow relative to the evaluation time",
    "time zone US/Pacific at the Home Assistant test location (32.87336, -117.22743); sun times are astral's, truncated to seconds as pyscript does",
    "a wall-clock label inside the spring-forward gap denotes the instant given by the offset before the jump (PEP 495, fold=0); two labels "
    "with the same real instant are one instant; a label repeated by fall-back denotes its first occurrence",
    "period() starts are full dates, now-based or self-consistent time-only starts (start < interval, interval divides 24 h); mm/dd and weekday period starts, "
    "yearless 02/29 and mixed fixed-start/time-only-end periods are not generated (their denotation is not defined by the documentation)",
    "cron day-of-month values that never occur in the selected months are generated only with an unrestricted day of week (expected: no instant; "
    "the cron library's bad-date error counts as 'none'); with a restricted day of week croniter cannot evaluate them",
    "function-level `now` values are labels read with fold=0; period instants are compared as labels at function level and as real spacing in the running part",
]
MAXTASKS = 1  # the function-level part replaces pyscript's hass with a stub: every shard gets a fresh process

STARTUP = dt.datetime(2020, 1, 15, 10, 20, 30, 250000)
US = dt.timedelta(microseconds=1)
ANCHORS = [
    STARTUP, dt.datetime(2020, 3, 8, 2, 0), dt.datetime(2020, 3, 8, 3, 0), dt.datetime(2020, 11, 1, 1, 0), dt.datetime(2020, 11, 1, 2, 0),
    dt.datetime(2020, 2, 29, 0, 0), dt.datetime(2020, 1, 1, 0, 0), dt.datetime(2020, 4, 30, 23, 0), dt.datetime(2020, 6, 15, 12, 0),
    dt.datetime(2021, 3, 1, 0, 0),
]

DATES = ["2020/03/08", "2019/12/31", "2020/02/29", "2020/11/01", "03/08", "12/31", "sunday", "wed", "today", "tomorrow", ""]
TIMES = ["2:30", "02:30:15", "23:59:59.5", "13:07:13.7", "10:10:10.01", "noon", "midnight", "sunrise", "sunset", ""]
OFFSETS = ["", "+ 90s", "- 30 min", "+ 1.5 h", "+1d", "-1w"]
INTERVALS = ["7 s", "15 min", "1 h", "6 h", "1 d", "1.5 h", "1w"]
CRON_FIELDS = {
    "m": ["*", "0", "30", "*/15", "10-12", "5,35"],
    "h": ["*", "2", "1-4", "*/6", "18", "1,2"],
    "d": ["*", "1", "31", "29", "8-9", "*/10"],
    "mo": ["*", "2", "3", "11", "3,11", "*/6"],
    "w": ["*", "0", "7", "1-5", "0,6", "3"],
}
LIST_POOL = [
    "once(18:00)", "once(sunday sunset - 30 min)", "once(03/08 2:30)", "once(now + 1.5 h)", "once(2020/11/01 1:30)", "period(now, 6 h)",
    "period(2020/03/07 18:00, 1 d)", "period(22:00, 45 min, 1:30)", "cron(1 1-4 * * *)", "cron(0 18 * * 0,6)", "cron(*/15 */6 1 * *)", "once(tomorrow noon)",
]


def once_specs(tier):
    out = []
    offs = OFFSETS if tier == "thorough" else ["", "+ 90s", "- 30 min", "+1d", "-1w"]
    dates = DATES if tier == "thorough" else ["2020/03/08", "2019/12/31", "03/08", "12/31", "sunday", "wed", "today", "tomorrow", ""]
    for d in dates:
        for t in TIMES:
            for o in offs:
                body = " ".join(x for x in (d, t, o) if x)
                if not d and not t:
                    continue
                out.append(f"once({body})")
    for o in OFFSETS:
        out.append(f"once(now {o})".replace(" )", ")"))
    return out


def period_specs(tier):
    out = []
    for S in ["2020/03/07 18:00", "2020/10/31 18:00", "2019/12/31 23:59:59.5", "2020/02/28 12:00", "now", "now + 10m", "now - 1h"]:
        for I in INTERVALS:
            out.append(f"period({S}, {I})")
    for S, I in [("0:05", "15 min"), ("midnight", "1h"), ("2:30", "6h"), ("noon", "1d"), ("1:00", "2h"), ("0:00:03.5", "10 s")]:
        out.append(f"period({S}, {I})")
    for S, I, E in [("6:00", "12 hr", "18:00"), ("18:00", "4 hr", "6:00"), ("sunset", "4 hours", "sunrise"), ("sunrise", "1h", "sunset"),
                    ("6:00", "12.0001 hr", "18:00"), ("22:00", "45 min", "1:30"), ("0:00", "1h", "23:59:59"),
                    ("2020/03/07 18:00", "6h", "2020/03/09 18:00"), ("2020/03/09 18:00", "6h", "2020/03/07 18:00"),
                    ("now + 10m", "5min", "now + 30min"), ("now", "1 hours", "now"), ("2020/02/28 23:00", "30 min", "2020/03/01 01:00"),
                    ("1:30", "1h", "1:30"), ("2:00", "1h", "3:00"), ("2020/10/31 23:00", "30 min", "2020/11/01 04:00")]:
        out.append(f"period({S}, {I}, {E})")
    return out


def cron_ok(m, h, d, mo, w):
    # day 31 / 29 with months in which it may never occur: only with an unrestricted day of week (see ASSUMPTIONS)
    never = (d == "31" and mo in ("2", "11")) or (d == "29" and False)
    return not (never and w != "*")


def cron_specs(tier):
    F = CRON_FIELDS
    if tier == "thorough":
        combos = itertools.product(F["m"], F["h"], F["d"], F["mo"], F["w"])
    else:
        combos = itertools.chain(
            itertools.product(F["m"][:4], F["h"][:3], F["d"][:3], F["mo"][:3], F["w"][:2]),
            itertools.product(F["m"][4:], F["h"][3:], F["d"][3:], F["mo"][3:], F["w"][2:]),
        )
    return [f"cron({m} {h} {d} {mo} {w})" for m, h, d, mo, w in combos if cron_ok(m, h, d, mo, w)]


def list_specs(tier):
    out = [list(c) for c in itertools.combinations(LIST_POOL, 2)]
    pool3 = LIST_POOL if tier == "thorough" else LIST_POOL[:8]
    out += [list(c) for c in itertools.combinations(pool3, 3)]
    return out


# ---------------------------------------------------------------------------------------------------------
# (a) function level
# ---------------------------------------------------------------------------------------------------------
_FN = {}


def fn_setup():
    if _FN:
        return _FN
    from zoneinfo import ZoneInfo

    import astral
    import astral.location
    from homeassistant.util import dt as dt_util

    from custom_components.pyscript import trigger
    from mc.progdiff import drive, install_stub_hass

    hass = install_stub_hass()
    dt_util.set_default_time_zone(ZoneInfo("US/Pacific"))
    loc = astral.location.Location(astral.LocationInfo("home", "", "US/Pacific", 32.87336, -117.22743))
    trigger.sun.get_astral_location = lambda h: (loc, 0)
    trigger.TrigTime.init(hass)
    _FN.update(trigger=trigger, drive=drive, loc=loc)
    return _FN


def impl_next(specs, now):
    f = fn_setup()
    try:
        return f["drive"](f["trigger"].TrigTime.timer_trigger_next(list(specs), now, STARTUP))
    except Exception as e:  # noqa
        return ("exc", type(e).__name__)


def oracle_next(spec, now):
    f = fn_setup()
    t, kind = cal.spec_next(spec, now, STARTUP, f["loc"])
    return t, kind


def breakpoints(specs):
    """Oracle-derived evaluation times for a list of specs."""
    out = set()
    for a in ANCHORS:
        for d in (-1, 0, 1):
            out.add(a + d * US)
        mid = dt.datetime(a.year, a.month, a.day)
        for d in (-1, 0, 1):
            out.add(mid + d * US)
            out.add(mid + dt.timedelta(days=1) + d * US)
        for spec in specs:
            t = a - dt.timedelta(days=1, hours=3)
            for _ in range(4):
                n, _k = oracle_next(spec, t)
                if n is None:
                    break
                for d in (-1, 0, 1):
                    out.add(n + d * US)
                t = n
    return sorted(out)


def spec_kind(spec):
    return spec.split("(")[0]


def check_single(res, spec, tier):
    kind = spec_kind(spec)
    cron = cal.Cron(spec[5:-1]) if kind == "cron" else None
    for now in breakpoints([spec]):
        want, _ = oracle_next(spec, now)
        got = impl_next([spec], now)
        obs = None if got == ("exc", "CroniterBadDateError") and want is None else got
        case = {"part": "fn", "specs": [spec], "now": now.isoformat()}
        fail = None
        if isinstance(obs, tuple) and obs and obs[0] == "exc":
            fail = ("exception", repr(want), repr(obs))
        else:
            nxt, adj = obs if obs is not None else (None, None)
            if kind == "cron":
                # compare real instants: two labels around the spring-forward gap can name the same instant
                # labels inside the spring-forward gap: both readings (they do not occur / they occur at the instant given
                # by the offset before the jump) are accepted, see ASSUMPTIONS
                want2 = cron.next(now, gap="skip")
                if nxt is None:
                    if want is not None and want2 is not None:
                        fail = ("label", repr(want), repr(nxt))
                elif not cron.matches(nxt) or not any(x is not None and cal.real(nxt) == cal.real(x) for x in (want, want2)):
                    fail = ("label", repr(want) + " or " + repr(want2), repr(nxt))
                elif abs((adj - now).total_seconds() - (cal.real(nxt) - cal.real(now)).total_seconds()) > 1e-9:
                    fail = ("wait", (cal.real(nxt) - cal.real(now)).total_seconds(), (adj - now).total_seconds())
            else:
                if nxt != want:
                    fail = ("label", repr(want), repr(nxt))
                elif nxt is not None and not (nxt > now or nxt == now == STARTUP):
                    fail = ("not-after-now", repr(want), repr(nxt))
        res.case((spec, now, repr(obs)), nontrivial=want is not None, transitions=1, config="fn/" + kind, sample=case)
        if fail:
            res.fail(f"fn|{kind}|{fail[0]}|{date_class(spec)}", case, expected=fail[1], observed=fail[2])
    # oracle-free laws on the iterated function
    for a in ANCHORS:
        t = a - dt.timedelta(days=1, hours=3)
        prev = None
        for _ in range(4):
            got = impl_next([spec], t)
            if not (isinstance(got, tuple) and len(got) == 2 and isinstance(got[0], dt.datetime)):
                break
            nxt = got[0]
            case = {"part": "fn-law", "specs": [spec], "now": t.isoformat()}
            if not nxt > t and not (nxt == t == STARTUP):
                res.fail(f"fn|{kind}|law-not-increasing|{date_class(spec)}", case, expected="> " + repr(t), observed=repr(nxt))
                break
            if prev is not None and "today" not in spec and "tomorrow" not in spec:
                mid = prev + (nxt - prev) / 2
                g2 = impl_next([spec], mid)
                ok = isinstance(g2, tuple) and len(g2) == 2 and g2[0] is not None and (
                    g2[0] == nxt or (kind == "cron" and cal.real(g2[0]) == cal.real(nxt)))
                res.case((spec, "law", mid, repr(g2)), nontrivial=True, transitions=1, config="fn-law/" + kind, sample=case)
                if not ok:
                    res.fail(f"fn|{kind}|law-idempotent-between|{date_class(spec)}", {"part": "fn-law", "specs": [spec], "now": mid.isoformat()},
                             expected=repr(nxt), observed=repr(g2))
            prev = nxt
            t = nxt


def date_class(spec):
    body = spec[spec.index("(") + 1:]
    if spec.startswith("cron"):
        return "cron"
    first = body.split(",")[0].strip().split(" ")[0]
    if first[:1].isdigit() and first.count("/") == 2:
        return "fulldate"
    if first[:1].isdigit() and first.count("/") == 1:
        return "monthday"
    if first in cal.DOW:
        return "weekday"
    if first in ("today", "tomorrow", "now"):
        return first
    return "dateless"


def check_list(res, specs):
    for now in breakpoints(specs):
        wants = [oracle_next(s, now) for s in specs]
        cands = [(cal.real(t) if k == "cron" else t.replace(tzinfo=cal.UTC) if False else t, t, k) for t, k in wants if t is not None]
        got = impl_next(specs, now)
        case = {"part": "fn-list", "specs": specs, "now": now.isoformat()}
        # the minimum is taken over labels (that is what the implementation can compare)
        want = min((t for _, t, _ in cands), default=None)
        nxt = got[0] if isinstance(got, tuple) and len(got) == 2 else got
        ok = nxt == want or (nxt is not None and want is not None and not isinstance(nxt, str) and isinstance(nxt, dt.datetime)
                             and cal.real(nxt) == cal.real(want) and nxt.date() == want.date() and abs((nxt - want).total_seconds()) <= 3600
                             and any(k == "cron" for _, _, k in cands))
        res.case((tuple(specs), now, repr(nxt)), nontrivial=want is not None, transitions=len(specs), config="fn-list", sample=case)
        if not ok:
            res.fail("fn|list|minimum", case, expected=repr(want), observed=repr(got))
        elif isinstance(got, tuple) and len(got) == 2 and got[0] is not None:
            # members agree one by one: the list result is the result of its minimal member
            singles = [impl_next([s], now) for s in specs]
            best = min((g for g in singles if isinstance(g, tuple) and len(g) == 2 and g[0] is not None), key=lambda g: g[0], default=None)
            if best is None or best[0] != got[0] or best[1] != got[1]:
                res.fail("fn|list|differs-from-members", case, expected=repr(best), observed=repr(got))


# ---------------------------------------------------------------------------------------------------------
# (b) running triggers
# ---------------------------------------------------------------------------------------------------------
def L(y, mo, d, h=0, mi=0, s=0, us=0):
    return dt.datetime(y, mo, d, h, mi, s, us)


# (name, specs, start label, duration seconds)
RUN_BASE = [
    ("cron18_fall", ["cron(0 18 * * *)"], L(2020, 10, 31, 17), 3 * 86400),
    ("cron18_spring", ["cron(0 18 * * *)"], L(2020, 3, 7, 17), 3 * 86400),
    ("cron18_plain", ["cron(0 18 * * *)"], L(2020, 6, 15, 17), 2 * 86400),
    ("cron1_4_fall", ["cron(1 1-4 * * *)"], L(2020, 10, 31, 23), 30 * 3600),
    ("cron1_4_spring", ["cron(1 1-4 * * *)"], L(2020, 3, 7, 23), 30 * 3600),
    ("cron30_fall", ["cron(*/30 * * * *)"], L(2020, 11, 1, 0, 10), 5 * 3600),
    ("cron30_gap", ["cron(*/30 1-3 * * *)"], L(2020, 3, 8, 0, 10), 6 * 3600),
    ("cron_month_end", ["cron(0 0 1 * *)"], L(2019, 12, 31, 23), 2 * 3600),
    ("cron_leap", ["cron(0 12 29 2 *)"], L(2020, 2, 28, 11), 2 * 86400),
    ("cron_dow", ["cron(23 8 * * 0,6)"], L(2020, 6, 12, 8), 4 * 86400),
    ("once18_spring", ["once(18:00)"], L(2020, 3, 7, 17), 3 * 86400),
    ("once18_fall", ["once(18:00)"], L(2020, 10, 31, 17), 3 * 86400),
    ("once18_plain", ["once(18:00)"], L(2020, 6, 15, 17), 2 * 86400),
    ("once230_spring", ["once(2:30)"], L(2020, 3, 7, 1), 3 * 86400),
    ("once130_fall", ["once(1:30)"], L(2020, 10, 31, 1), 3 * 86400),
    ("once_sunset", ["once(sunset - 30 min)"], L(2020, 6, 15, 12), 3 * 86400),
    ("once_sunset_spring", ["once(sunset - 30 min)"], L(2020, 3, 7, 12), 3 * 86400),
    ("once_sun_week", ["once(sun 12:00)"], L(2020, 6, 13, 11), 9 * 86400),
    ("once_newyear", ["once(01/01)"], L(2019, 12, 31, 23), 2 * 3600),
    ("once_full", ["once(2020/06/15 12:00:00.5)"], L(2020, 6, 15, 11, 59, 59, 750000), 5),
    ("once_subsecond", ["once(12:00:00.5)"], L(2020, 6, 15, 11, 59, 59, 750000), 86400 + 5),
    ("period_day_fall", ["period(2020/10/31 18:00, 1 day)"], L(2020, 10, 31, 17), 3 * 86400),
    ("period_day_spring", ["period(2020/03/07 18:00, 1 day)"], L(2020, 3, 7, 17), 3 * 86400),
    ("period_day_plain", ["period(2020/06/15 18:00, 1 day)"], L(2020, 6, 15, 17), 3 * 86400),
    ("period_now6h_fall", ["period(now, 6 h)"], L(2020, 10, 31, 17), 2 * 86400),
    ("period_now6h_plain", ["period(now, 6 h)"], L(2020, 6, 15, 17), 2 * 86400),
    ("period_now_end", ["period(now + 10m, 5min, now + 30min)"], L(2020, 6, 15, 12), 3600),
    ("period_hourly_spring", ["period(0:00, 1h)"], L(2020, 3, 8, 0, 30), 6 * 3600),
    ("period_hourly_fall", ["period(0:00, 1h)"], L(2020, 11, 1, 0, 30), 6 * 3600),
    ("period_hourly_plain", ["period(0:00, 1h)"], L(2020, 6, 15, 0, 30), 6 * 3600),
    ("period_window", ["period(22:00, 45 min, 1:30)"], L(2020, 6, 15, 21), 2 * 86400),
    ("once_now", ["once(now)"], L(2020, 6, 15, 12), 600),
    ("once_now5", ["once(now + 5 min)", "once(now + 10 min)"], L(2020, 6, 15, 12), 1200),
    ("startup_only", ["startup"], L(2020, 6, 15, 12), 600),
    ("startup_and_once", ["startup", "once(now + 1 min)"], L(2020, 6, 15, 12), 600),
    ("shutdown_only", ["shutdown"], L(2020, 6, 15, 12), 600),
    ("startup_shutdown_cron", ["startup", "shutdown", "cron(*/5 * * * *)"], L(2020, 6, 15, 12, 1), 1200),
    ("list3", ["once(18:00)", "cron(30 17 * * *)", "period(now, 7 h)"], L(2020, 6, 15, 10), 2 * 86400),
    ("list_same_instant", ["once(18:00)", "cron(0 18 * * *)"], L(2020, 6, 15, 17), 2 * 86400),
    # two @time_trigger decorators on one function (distinct instants: the union)
    ("two_decorators", ["once(18:00)", "|", "cron(30 17 * * *)", "period(now + 20 min, 7 h)"], L(2020, 6, 15, 10), 2 * 86400),
]
SKEWS = [0.0, -1e-3, -1e-6, 1e-3]
PAD = 1807  # every window ends 30 min 7 s after its nominal length, away from any denoted instant
OPS = ["none", "redefine", "remove", "stop"]
TOL = 5e-3


def scenarios(tier):
    out = []
    for name, specs, start, dur in RUN_BASE:
        for legacy in (False, True):
            nowbased = any("now" in s or s in ("startup", "shutdown") for s in specs)
            dst_window = cal.real(start).astimezone(cal.TZ).utcoffset() != (cal.real(start) + dt.timedelta(seconds=dur + PAD)).astimezone(cal.TZ).utcoffset()
            for skew in SKEWS:
                # wall-clock skew is explored where the window has no DST change: next to a transition the code compares
                # labels that are an hour apart in real time, which is the unspecified territory described in ASSUMPTIONS
                if skew and (dst_window or (tier == "quick" and name not in (
                        "cron18_plain", "once18_plain", "period_hourly_plain", "once_subsecond", "period_now_end"))):
                    continue
                out.append(("trigger", name, legacy, skew, "none"))
            if nowbased or name in ("cron18_plain", "period_hourly_plain"):
                for op in OPS[1:]:
                    out.append(("trigger", name, legacy, 0.0, op))
            if not nowbased and "|" not in specs and (tier == "thorough" or name in ("cron18_fall", "cron1_4_spring", "once18_spring", "period_hourly_fall", "once_subsecond")):
                out.append(("wait_until", name, legacy, 0.0, "none"))
    return out


def expected_instants(specs, startup, lo, hi, loc):
    """Denoted instants of the list in (lo, hi] plus startup itself when now-based, as [(label, real utc, kind)]."""
    out = []
    for spec in specs:
        if spec in ("startup", "shutdown", "|"):
            continue
        kind = spec_kind(spec)
        t = lo
        first = True
        while True:
            if kind == "cron":
                n = cal.Cron(spec[5:-1]).next(t)
            else:
                n, _ = cal.spec_next(spec, t, startup, loc)
            if n is None:
                break
            if kind == "cron":
                r = cal.real(n)
            elif kind == "period" and not spec_is_timeonly_period(spec):
                r = None  # filled in below: equally spaced in real time from the start
            else:
                r = cal.real(n)
            if (r or cal.real(n)) > cal.real(hi) + dt.timedelta(days=1):
                break
            out.append([n, r, kind, spec])
            first = False
            if n == t:
                t = n + US
            else:
                t = n
            if len(out) > 2000:
                break
    # period with a fixed / now-based start: instants are start + k * interval in REAL time
    fixed = []
    for spec in specs:
        if spec_kind(spec) == "period" and not spec_is_timeonly_period(spec):
            parts = [p.strip() for p in spec[7:-1].split(",")]
            S = cal.parse_dt(parts[0])
            iv = cal.parse_interval(parts[1])
            s_label = (startup + dt.timedelta(seconds=S.offset)) if S.date[0] == "now" else S.on_day(dt.date(S.date[1], S.date[2], S.date[3]), loc)
            e_real = None
            if len(parts) > 2:
                E = cal.parse_dt(parts[2])
                e_label = (startup + dt.timedelta(seconds=E.offset)) if E.date[0] == "now" else E.on_day(dt.date(E.date[1], E.date[2], E.date[3]), loc)
                e_real = cal.real(e_label)
            s_real = cal.real(s_label)
            k = 0
            while True:
                r = s_real + dt.timedelta(seconds=k * iv)
                if r > cal.real(hi) or (e_real is not None and r > e_real):
                    break
                if r > cal.real(lo) or (r == cal.real(lo) and lo == startup):
                    fixed.append([cal.label_of(r), r, "period", spec])
                k += 1
                if k > 100000:
                    break
    out = [o for o in out if o[1] is not None] + fixed
    res = []
    for n, r, kind, spec in out:
        if cal.real(lo) < r <= cal.real(hi) or (r == cal.real(lo) and lo == startup and "now" in spec):
            res.append((n, r, kind, spec))
    res.sort(key=lambda x: (x[1], x[0]))
    # two specs (or two labels) naming the same real instant are one instant
    merged = []
    for e in res:
        if merged and merged[-1][1] == e[1]:
            merged[-1][4].append(e[0])
            continue
        merged.append([e[0], e[1], e[2], e[3], [e[0]]])
    return merged


def known_period_runs(specs, startup, end, loc):
    """Model of the recorded defect (both subsystems): period instants are computed on wall-clock labels and the wait is
    the label difference, re-waited while the wall clock is behind the label.  Only for a single fixed / now-based period."""
    if len(specs) != 1 or spec_kind(specs[0]) != "period" or spec_is_timeonly_period(specs[0]):
        return None
    t = cal.real(startup)
    runs = []
    now_label = startup
    for _ in range(200):
        T, _k = cal.spec_next(specs[0], now_label, startup, loc)
        if T is None:
            break
        wait = (T - cal.label_of(t)).total_seconds()
        t2 = t + dt.timedelta(seconds=max(0.0, wait))
        while cal.label_of(t2) < T:
            t2 = t2 + (T - cal.label_of(t2))
        if t2 > cal.real(end):
            break
        runs.append((T, t2))
        t = t2
        now_label = max(cal.label_of(t2), T)
        if now_label == startup:
            now_label += US  # the clock has moved on by the time the next instant is computed
    return runs


def spec_is_timeonly_period(spec):
    first = spec[7:-1].split(",")[0].strip()
    return not (first.startswith("now") or (first[:1].isdigit() and first.split(" ")[0].count("/") == 2))


def source(mode, specs):
    args = ", ".join(repr(s) for s in specs)
    if mode == "trigger":
        groups = [[]]
        for sp in specs:
            if sp == "|":
                groups.append([])
            else:
                groups[-1].append(sp)
        decos = "".join("@time_trigger(" + ", ".join(repr(x) for x in g) + ")\n" for g in groups)
        return f"runs = []\n{decos}def f(trigger_time=None, trigger_type=None, **kw):\n    runs.append((trigger_type, trigger_time))\n"
    return (f"runs = []\n@service\ndef waiter():\n    for i in range(4):\n        r = task.wait_until(time_trigger=[{args}])\n"
            "        runs.append((r.get('trigger_type'), r.get('trigger_time')))\n")


def run_scenario(sc):
    import astral
    import astral.location

    from mc.vloop import HorizonExceeded
    from mc.world import World

    mode, name, legacy, skew, op = sc
    _, specs, start, dur = [b for b in RUN_BASE if b[0] == name][0]
    dur = dur + PAD
    loc = astral.location.Location(astral.LocationInfo("home", "", "US/Pacific", 32.87336, -117.22743))
    start_utc = cal.real(start)
    nowbased = any("now" in s for s in specs)
    # a frozen clock makes 'now'-based specs (and repeated task.wait_until calls) find their own startup instant forever;
    # there the clock creeps 10 us per callback as a real one would
    w = World({"other.py": "x = 1\n"}, legacy=legacy, start_utc=start_utc, tick=1e-5 if (nowbased or mode == "wait_until") else 0.0)
    obs = []
    w.loop.max_steps = w.loop.steps + 400_000
    livelock = None
    try:
        seen = 0

        def poll():
            nonlocal seen
            g = w.g("file.hello")
            runs = g.get("runs") if g else None
            if runs is None:
                return
            while seen < len(runs):
                obs.append((w.now(), w.start_utc + dt.timedelta(seconds=w.elapsed()), runs[seen][0], runs[seen][1], id(runs), w.skew))
                seen += 1

        def run_to(t_loop):
            while True:
                w.loop.settle()
                poll()
                nt = w.loop.next_timer()
                if nt is None or nt > t_loop:
                    break
                w.loop.advance_to(nt)
            w.loop.advance_to(t_loop)
            w.loop.settle()
            poll()

        lifetimes = []  # (definition label window begin, end, startup lower/upper bound, removed how)
        t_begin = w.now()
        w.write("hello.py", source(mode, specs))
        w.reload()
        w.settle()
        if mode == "wait_until":
            w.start_service("pyscript", "waiter", {})
            w.settle()
        t_defined = w.now()
        poll()
        if skew:
            w.skew = skew
        t0 = w.loop.time()
        cut = dur * 0.45 if op != "none" else dur
        run_to(t0 + cut)
        removed_at = None
        second = None
        old_runs_id = obs[0][4] if obs else None
        if op == "redefine":
            removed_at = w.now()
            old_runs = w.g("file.hello").get("runs")
            w.write("hello.py", source(mode, specs) + "# again\n")
            w.reload()
            w.settle()
            # the run of the old definition's shutdown entry lands in the OLD list
            while seen < len(old_runs):
                obs.append((w.now(), w.start_utc + dt.timedelta(seconds=w.elapsed()), old_runs[seen][0], old_runs[seen][1], id(old_runs), w.skew))
                seen += 1
            second = (removed_at, w.now())
            seen = 0
            poll()
            run_to(t0 + dur)
        elif op == "remove":
            removed_at = w.now()
            g_old = w.g("file.hello")
            old_runs = g_old.get("runs")
            w.remove("hello.py")
            w.reload()
            w.settle()
            while seen < len(old_runs):
                obs.append((w.now(), w.start_utc + dt.timedelta(seconds=w.elapsed()), old_runs[seen][0], old_runs[seen][1], id(old_runs), w.skew))
                seen += 1
            run_to(t0 + dur)
        elif op == "stop":
            from homeassistant.const import EVENT_HOMEASSISTANT_STOP

            removed_at = w.now()
            g_old = w.g("file.hello")
            old_runs = g_old.get("runs")
            w.hass.bus.async_fire(EVENT_HOMEASSISTANT_STOP)
            w.settle()
            while seen < len(old_runs):
                obs.append((w.now(), w.start_utc + dt.timedelta(seconds=w.elapsed()), old_runs[seen][0], old_runs[seen][1], id(old_runs), w.skew))
                seen += 1
            run_to(t0 + dur * 0.6)
            while seen < len(old_runs):
                obs.append((w.now(), w.start_utc + dt.timedelta(seconds=w.elapsed()), old_runs[seen][0], old_runs[seen][1], id(old_runs), w.skew))
                seen += 1
        t_end = w.now()
        errors = [repr(e)[:200] for e in w.errors]
    except HorizonExceeded:
        # no quiescence: the same instant keeps firing (or the wait keeps being zero)
        n_runs = len(obs)
        livelock = [("livelock", "quiescence between instants", f"400000 callbacks without the clock moving; {n_runs} runs recorded so far")]
    finally:
        try:
            w.close()
        except Exception:  # noqa
            pass
    if livelock:
        return livelock, [[(str(o[3]), str(o[0])) for o in obs[:6]]]
    return judge(sc, specs, start, t_begin, t_defined, removed_at, second, t_end, obs, errors, loc, skew)


def judge(sc, specs, start, t_begin, t_defined, removed_at, second, t_end, obs, errors, loc, skew):
    mode, name, legacy, _skew, op = sc
    problems = []
    # split observations per definition (identity of the runs list)
    ids = []
    for o in obs:
        if o[4] not in ids:
            ids.append(o[4])
    defs = []
    for i, rid in enumerate(ids):
        defs.append([o for o in obs if o[4] == rid])
    windows = [(t_begin, t_defined, removed_at or t_end)]
    if second:
        windows.append((second[0], second[1], t_end))
    out_obs = []
    for di, (lo_b, hi_b, end) in enumerate(windows):
        mine = defs[di] if di < len(defs) else []
        special = [o for o in mine if o[3] in ("startup", "shutdown")]
        timed = [o for o in mine if o[3] not in ("startup", "shutdown")]
        want_special = []
        if mode == "trigger":
            if "startup" in specs:
                want_special.append("startup")
            if "shutdown" in specs and (di == 0 and op in ("redefine", "remove", "stop")):
                want_special.append("shutdown")
        got_special = [o[3] for o in special]
        if got_special != want_special:
            problems.append(("startup-shutdown", want_special, got_special))
        for o in special:
            if o[3] == "startup" and not (lo_b <= o[0] <= hi_b + dt.timedelta(seconds=TOL)):
                problems.append(("startup-time", str(hi_b), str(o[0])))
        # time instants: the startup time of this definition lies in [lo_b, hi_b]
        nowbased = any("now" in s for s in specs)
        startup = hi_b
        if nowbased and timed:
            # infer the definition's 'now' from the first now-based run
            first = timed[0]
            for spec in specs:
                if "now" in spec and spec_kind(spec) in ("once", "period"):
                    arg = spec[spec.index("(") + 1:-1].split(",")[0]
                    off = cal.parse_dt(arg).offset
                    cand = first[3] - dt.timedelta(seconds=off) if isinstance(first[3], dt.datetime) else None
                    if cand is not None and lo_b - dt.timedelta(seconds=TOL) <= cand <= hi_b + dt.timedelta(seconds=TOL):
                        startup = cand
                        break
        elif nowbased:
            startup = hi_b
        if mode == "wait_until":
            exp = expected_instants(specs, startup, startup, end, loc)[:4]
        else:
            exp = expected_instants(specs, startup, startup, end, loc)
        # instants within the tolerance of the window's end may or may not have run
        hard = [e for e in exp if e[1] <= cal.real(end) - dt.timedelta(seconds=1)]
        got = [(o[3], o[1], o[0], o[2], o[5]) for o in timed]
        if mode == "wait_until":
            # a call made when no instant is left returns trigger_type 'none' at once (C15); only time results are instants
            tail = [g for g in got if g[3] != "time"]
            got = [g for g in got if g[3] == "time"]
            if any(g[3] != "none" for g in tail) or (tail and len(got) < len(exp)):
                problems.append(("wait-until-result", "time results, then 'none' only when no instant is left", [str(g[3]) for g in tail]))
        out_obs.append([(str(g[0]), str(g[2])) for g in got])
        known = known_period_runs(specs, startup, end, loc)
        if known is not None and mode == "wait_until":
            known = known[:4]
        if known is not None and [k[0] for k in known] != [e[0] for e in exp if True][:len(known)] + [] and len(got) in (len(known), len(known) - 1) and all(
                g[0] == k[0] and abs((g[1] - k[1]).total_seconds()) <= TOL for g, k in zip(got, known)) and not (
                len(got) == len(exp) and all(abs((g[1] - e[1]).total_seconds()) <= TOL for g, e in zip(got, exp))):
            # the recorded finding: a period() with a fixed or now-based start does not keep its spacing across a DST change
            problems.append(("period-dst-spacing", [(str(e[0]), str(e[1])) for e in exp], [(str(g[0]), str(g[1])) for g in got]))
        elif len(got) < len(hard) or len(got) > len(exp):
            problems.append(("run-count", [str(e[0]) for e in exp], [str(g[0]) for g in got]))
        else:
            for e, g in zip(exp, got):
                if g[3] != "time":
                    problems.append(("trigger-type", "time", g[3]))
                if g[0] not in e[4] and not (isinstance(g[0], dt.datetime) and cal.real(g[0]) == e[1] and e[2] == "cron"):
                    if e[2] == "period" and isinstance(g[0], dt.datetime) and g[0] != e[0]:
                        problems.append(("period-spacing" if abs((cal.real(g[0]) - e[1]).total_seconds()) >= 1800 else "trigger-time", str(e[0]), str(g[0])))
                    else:
                        problems.append(("trigger-time", str(e[0]), str(g[0])))
                    break
                # wall clock = real + skew in effect at the run: the run must not start before the wall clock shows the instant
                # (1 us tolerance of the code)
                wall_late = (g[1] + dt.timedelta(seconds=g[4]) - e[1]).total_seconds()
                if wall_late < -2e-6 or wall_late > TOL + abs(g[4]):
                    problems.append(("run-time", str(e[1]), str(g[1])))
                    break
    if errors:
        problems.append(("loop-exception", None, errors[:2]))
    return problems, out_obs


# ---------------------------------------------------------------------------------------------------------
def bounds(tier):
    return {"once_specs": len(once_specs(tier)), "period_specs": len(period_specs(tier)), "cron_specs": len(cron_specs(tier)),
            "spec_lists": len(list_specs(tier)), "anchors": [a.isoformat() for a in ANCHORS], "running_scenarios": len(scenarios(tier)),
            "skews": SKEWS, "ops": OPS}


def plan(tier, seed):
    shards = []
    n = 16
    for fam in ("once", "period", "cron", "list"):
        for k in range(n):
            shards.append(("fn", tier, fam, k, n))
    scs = scenarios(tier)
    m = 32
    for k in range(m):
        shards.append(("run", tier, k, m))
    return shards


def run_shard(shard):
    res = Shard()
    if shard[0] == "fn":
        _, tier, fam, k, n = shard
        if fam == "list":
            for i, specs in enumerate(list_specs(tier)):
                if i % n == k:
                    check_list(res, specs)
        else:
            specs = {"once": once_specs, "period": period_specs, "cron": cron_specs}[fam](tier)
            for i, spec in enumerate(specs):
                if i % n == k:
                    check_single(res, spec, tier)
        return res
    _, tier, k, m = shard
    for i, sc in enumerate(scenarios(tier)):
        if i % m != k:
            continue
        problems, out_obs = run_scenario(sc)
        case = {"part": "run", "scenario": list(sc)}
        res.case((sc, repr(out_obs)), nontrivial=any(out_obs), transitions=sum(len(o) for o in out_obs) + 1,
                 config=("legacy" if sc[2] else "new") + "/" + sc[0], sample=case)
        for p in problems[:1]:
            sig = f"run|{'legacy' if sc[2] else 'new'}|{sc[0]}|{p[0]}" + ("" if p[0] == "period-dst-spacing" else f"|{sc[1]}|{sc[4]}")
            res.fail(sig, case, expected=p[1], observed=p[2], detail={"all": repr(problems)[:2000], "runs": out_obs})
    return res


def replay(case):
    if case["part"] == "run":
        sc = tuple(case["scenario"])
        problems, out_obs = run_scenario(sc)
        return {"ok": not problems, "problems": repr(problems)[:3000], "runs": out_obs}
    # function level: run the same check again for these specifications and look for this evaluation time
    res = Shard()
    res.MAX_FAIL = 10**9
    specs = case["specs"]
    if case["part"] == "fn-list":
        check_list(res, specs)
    else:
        check_single(res, specs[0], "thorough")
    same = [f for f in res.failures if f["case"].get("now") == case["now"] and f["case"].get("part") == case["part"]]
    return {"ok": not same, "specs": specs, "now": case["now"],
            "failures": [{"sig": f["sig"], "expected": repr(f.get("expected")), "observed": repr(f.get("observed"))} for f in same[:3]]}
