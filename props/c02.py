"""C02 — control flow and exception handling follow Python's paths (E3, differential against CPython)."""

from gen import skeletons as SK
from mc import progdiff as PD
from mc.result import Shard

PID = "C02"
LEVEL = "model_checking"
RULE = (
    "every control-flow skeleton of gen/skeletons.py: a spine of nested constructs {if, for, for-else, while, "
    "while-else, try-except (7 handler shapes incl. except BaseException), try-finally, try-except-else-finally, with (6 manager shapes), "
    "nested def} up to the tier's nesting depth with every placement of at most 2 jumps {break, continue, "
    "return, raise E, raise subclass, raise of a BaseException that is not an Exception, raise-from, bare raise, ZeroDivisionError, assert} in the remaining slots; "
    "kept iff CPython compiles it; executed by AstEval and by CPython; observation = (globals incl. returned value, "
    "tracer trail incl. context-manager enter/exit arguments, exception type and cause type). distinct = distinct "
    "observation; non-trivial = a jump or an exception changed the path (trail differs from straight fall-through)"
)
ASSUMPTIONS = [
    "CPython 3.12 executing the same source is the reference semantics",
    "loops iterate twice; one spine per skeleton (sibling constructs in one block are not enumerated)",
    "random skeletons to depth 6 of the quantifier are not sampled; depth and jump count are the bound",
]
MAXTASKS = 8


def bounds(tier):
    return {"depth": 3 if tier == "thorough" else 2, "max_jumps": 2,
            "constructs": len(SK.CONSTRUCTS) if tier == "thorough" else len(SK.QUICK_CONSTRUCTS),
            "jump_kinds": len(SK.JUMPS) if tier == "thorough" else len(SK.QUICK_JUMPS),
            "thorough_depth3": "full construct set at depth 2; quick construct/jump set at depth 3"}


def plan(tier, seed):
    shards = [("mod", None)]
    if tier == "quick":
        shards += [("fn", 2, 2, True, sh) for sh in SK.top_shards(2, True)]
    else:
        shards += [("fn", 2, 2, False, sh) for sh in SK.top_shards(2, False)]
        shards += [("fn", 3, 2, True, sh) for sh in SK.top_shards(3, True)]
    return shards


def check_one(res, cfg, src):
    if not PD.compiles(src):
        return
    py = PD.run_py(src)
    ps = PD.run_ps(src)
    nontrivial = py[2] is not None or "'end'" not in src or len(py[1]) != src.count("t(")
    res.case(ps, nontrivial=nontrivial, transitions=len(ps[1]) + 1, config=cfg, sample={"src": src})
    if ps != py:
        sig = f"{cfg}|{PD.diff_kind(ps, py)}"
        if "B1" in src:
            # the recorded finding, modelled exactly: pyscript's try statement only considers exceptions derived from Exception, so a
            # bare 'except:' / 'except BaseException' does not catch a BaseException that is not an Exception.  If pyscript agrees with
            # CPython on the same source with those handlers narrowed to Exception, this is that finding and nothing else.
            narrowed = src.replace("except:", "except Exception:").replace("except BaseException as", "except Exception as")
            if narrowed != src and PD.compiles(narrowed) and PD.run_py(narrowed) == ps:
                sig = "bare-except-misses-baseexception"
        res.fail(sig, {"src": src}, expected=py, observed=ps, detail=PD.trail_diff(ps[1], py[1]))


def run_shard(shard):
    PD.install_stub_hass()
    res = Shard()
    if shard[0] == "mod":
        for src in SK.module_level(False):
            check_one(res, "module", src)
        return res
    _, depth, jumps, quick, sh = shard
    for src in SK.programs(depth, jumps, quick, sh):
        check_one(res, f"d{depth}", src)
    return res


def replay(case):
    PD.install_stub_hass()
    src = case["src"]
    py = PD.run_py(src)
    ps = PD.run_ps(src)
    return {"ok": ps == py, "src": src, "python": py, "pyscript": ps, "kind": PD.diff_kind(ps, py)}
