"""C16 — state variables read and write Home Assistant state faithfully (E2 + E1 against a dictionary model)."""

import copy
import itertools

from mc import explore as EX
from mc.result import Shard
from ref.statemodel import StateModel

PID = "C16"
LEVEL = "model_checking"
RULE = (
    "E2: breadth-first search over all reachable states of entity pyscript.e1 (absent, or one of 7 values x attribute "
    "sets over a in {-,1,2}, b in {-,[1]}, c in {-,0}) with a second entity pyscript.e2 as bystander; from every reachable "
    "state every operation of the alphabet (script-side reads, assignments of str/int/float/bool/list/dict values, "
    "attribute assignment, state.set with every combination of value / new_attributes / keyword attributes, state.setattr, "
    "del / state.delete of entity and attribute, state.exist, state.names, state.getattr, snapshot capture and later "
    "re-inspection; external async_set / async_remove) is executed on a fresh world reached by a shortest path; E1: all "
    "operation sequences of the tier's length from the initial state. After every operation hass.states, the value or "
    "exception type seen by the script and every captured snapshot are compared with the dictionary model; plus the "
    "8 service/variable precedence configurations. distinct = distinct (operation, observation); non-trivial = the "
    "operation returned a value or changed the state machine (not merely raised)"
)
ASSUMPTIONS = [
    "Home Assistant stores str(value); identical value+attributes writes are no-ops",
    "assigning None or a state snapshot (StateVal) to DOMAIN.name is outside the alphabet (the statement does not define them)",
    "state.set with an omitted value on a missing entity is not generated (the statement only says an existing value is kept)",
]
MAXTASKS = 40

E1N, E2N = "pyscript.e1", "pyscript.e2"
INITIAL = {E1N: ("0", {"a": 1}), E2N: ("x", {"a": 9})}
VIRTUAL = ("entity_id", "last_changed", "last_updated", "last_reported")

SCRIPT = "out = []\nsnaps = {}\n"


def wrap(expr):
    return f"try:\n    r = ('ok', canon({expr}))\nexcept Exception as e:\n    r = ('exc', type(e).__name__)\nout.append(r)\n"


def wrap_stmt(stmt):
    return f"try:\n    {stmt}\n    r = ('ok', None)\nexcept Exception as e:\n    r = ('exc', type(e).__name__)\nout.append(r)\n"


def sv(model, ent):
    cur = model.get(ent)
    # in a snapshot an attribute named like a virtual field is hidden by that field
    return ("sv", cur[0], tuple(sorted((k, repr(v)) for k, v in cur[1].items() if k not in VIRTUAL)), ent, "datetime")


# each op: (name, kind, payload).  kinds: code (script side), ext (external)
ASSIGN_VALUES = [("'on'", "on"), ("5", "5"), ("1.5", "1.5"), ("True", "True"), ("[1]", "[1]"), ("{'k': 1}", "{'k': 1}")]


def ops():
    out = []
    out.append(("read", "code"))
    out.append(("read_a", "code"))
    out.append(("read_nope", "code"))
    out.append(("get", "code"))
    out.append(("get_a", "code"))
    out.append(("get_nope", "code"))
    out.append(("virt", "code"))
    for i, (src, _) in enumerate(ASSIGN_VALUES):
        out.append((f"assign{i}", "code"))
    out.append(("attr_assign_a2", "code"))
    out.append(("attr_assign_a1", "code"))
    out.append(("attr_assign_a0", "code"))
    out.append(("snapassign", "code"))
    out.append(("snapset", "code"))
    for val, na, kw in itertools.product((0, 1), repeat=3):
        out.append((f"set_v{val}n{na}k{kw}", "code"))
    out.append(("set_newattr_empty", "code"))
    out.append(("setattr_b", "code"))
    out.append(("setattr_b_none", "code"))
    out.append(("set_kw_entity_id", "code"))
    out.append(("read_virt_entity_id", "code"))
    out.append(("snapmod", "code"))
    out.append(("read_zz", "code"))
    out.append(("set_kw_context", "code"))
    out.append(("attr_assign_context", "code"))
    out.append(("read_context", "code"))
    out.append(("exist_b", "code"))
    out.append(("del_ent", "code"))
    out.append(("delete_ent", "code"))
    out.append(("del_attr_a", "code"))
    out.append(("delete_attr_b", "code"))
    out.append(("exist", "code"))
    out.append(("exist_a", "code"))
    out.append(("exist_c", "code"))
    out.append(("exist_virt", "code"))
    out.append(("names", "code"))
    out.append(("getattr", "code"))
    out.append(("snap", "code"))
    out.append(("snap_check", "code"))
    out.append(("ext_set0", "ext"))
    out.append(("ext_set_on_b", "ext"))
    out.append(("ext_remove", "ext"))
    return out


OPS = ops()
OPNAMES = [o[0] for o in OPS]


class M:
    """Model: state machine + snapshots captured by the script."""

    def __init__(self, sm=None, snap=None):
        self.sm = sm or StateModel(INITIAL)
        self.snap = snap  # canonical StateVal observation or None

    def copy(self):
        return M(self.sm.copy(), copy.deepcopy(self.snap))

    def canon(self):
        return (self.sm.canon(), self.snap)


def step(m, op):
    """Apply op to the model: returns (code or None, expected script observation or None)."""
    sm = m.sm
    cur = sm.get(E1N)
    exists = cur is not None
    NE, AE = ("exc", "NameError"), ("exc", "AttributeError")
    if op == "read":
        return wrap("pyscript.e1"), (("ok", sv(sm, E1N)) if exists else NE)
    if op == "read_a":
        if not exists:
            return wrap("pyscript.e1.a"), NE
        return wrap("pyscript.e1.a"), (("ok", ("v", repr(cur[1]["a"]))) if "a" in cur[1] else AE)
    if op == "read_nope":
        return wrap("pyscript.e1.nope"), (AE if exists else NE)
    if op == "get":
        return wrap("state.get('pyscript.e1')"), (("ok", sv(sm, E1N)) if exists else NE)
    if op == "get_a":
        if not exists:
            return wrap("state.get('pyscript.e1.a')"), NE
        return wrap("state.get('pyscript.e1.a')"), (("ok", ("v", repr(cur[1]["a"]))) if "a" in cur[1] else AE)
    if op == "get_nope":
        return wrap("state.get('pyscript.e1.nope')"), (AE if exists else NE)
    if op == "virt":
        code = wrap("(pyscript.e1.entity_id, type(pyscript.e1.last_changed).__name__, type(pyscript.e1.last_updated).__name__, type(pyscript.e1.last_reported).__name__)")
        return code, (("ok", ("v", repr((E1N, "datetime", "datetime", "datetime")))) if exists else NE)
    if op.startswith("assign"):
        src, val = ASSIGN_VALUES[int(op[6:])]
        sm.set(E1N, val, None)
        return wrap_stmt(f"pyscript.e1 = {src}"), ("ok", None)
    if op in ("snapassign", "snapset"):
        # a captured snapshot used as the new value: value and attributes are taken from the snapshot
        code = wrap_stmt("pyscript.e1 = snaps['s']") if op == "snapassign" else wrap_stmt("state.set('pyscript.e1', snaps['s'])")
        if m.snap is None:
            return None, None
        attrs = {k: eval(v) for k, v in m.snap[2]}  # noqa: S307
        sm.set(E1N, m.snap[1], attrs)
        return code, ("ok", None)
    if op in ("attr_assign_a2", "attr_assign_a1", "attr_assign_a0"):
        v = int(op[-1])
        if not exists:
            return wrap_stmt(f"pyscript.e1.a = {v}"), NE
        attrs = dict(cur[1])
        attrs["a"] = v
        sm.set(E1N, None, attrs)
        return wrap_stmt(f"pyscript.e1.a = {v}"), ("ok", None)
    if op.startswith("set_v"):
        val, na, kw = int(op[5]), int(op[7]), int(op[9])
        if not val and not exists:
            return None, None  # not generated (see ASSUMPTIONS)
        args = ["'pyscript.e1'"]
        if val:
            args.append("'on2'")
        if na:
            args.append("new_attributes={'b': [1]}")
        if kw:
            args.append("c=0")
        attrs = {"b": [1]} if na else (dict(cur[1]) if exists else {})
        if kw:
            attrs["c"] = 0
        sm.set(E1N, "on2" if val else None, attrs)
        return wrap_stmt(f"state.set({', '.join(args)})"), ("ok", None)
    if op == "set_newattr_empty":
        if not exists:
            return None, None
        sm.set(E1N, None, {})
        return wrap_stmt("state.set('pyscript.e1', new_attributes={})"), ("ok", None)
    if op == "setattr_b":
        if not exists:
            return wrap_stmt("state.setattr('pyscript.e1.b', [1])"), NE
        attrs = dict(cur[1])
        attrs["b"] = [1]
        sm.set(E1N, None, attrs)
        return wrap_stmt("state.setattr('pyscript.e1.b', [1])"), ("ok", None)
    if op == "set_kw_entity_id":
        # an attribute that is named like a virtual field is stored, but reading NAME.entity_id still gives the entity's id
        if not exists:
            return None, None
        attrs = dict(cur[1])
        attrs["entity_id"] = ["m1", "m2"]
        sm.set(E1N, None, attrs)
        return wrap_stmt("state.set('pyscript.e1', entity_id=['m1', 'm2'])"), ("ok", None)
    if op == "read_virt_entity_id":
        code = wrap("(pyscript.e1.entity_id, state.get('pyscript.e1').entity_id)")
        return code, (("ok", ("v", repr((E1N, E1N)))) if exists else NE)
    if op == "snapmod":
        # a captured snapshot is the script's own object: changing it changes nothing else
        if m.snap is None:
            return None, None
        attrs = dict(m.snap[2])
        attrs["zz"] = "1"
        m.snap = (m.snap[0], m.snap[1], tuple(sorted(attrs.items())), m.snap[3], m.snap[4])
        return wrap_stmt("snaps['s'].zz = 1"), ("ok", None)
    if op == "read_zz":
        return wrap("pyscript.e1.zz"), (AE if exists else NE)
    if op == "setattr_b_none":
        # an attribute whose value is None is an attribute like any other (it exists, can be read and deleted)
        if not exists:
            return wrap_stmt("state.setattr('pyscript.e1.b', None)"), NE
        attrs = dict(cur[1])
        attrs["b"] = None
        sm.set(E1N, None, attrs)
        return wrap_stmt("state.setattr('pyscript.e1.b', None)"), ("ok", None)
    if op == "set_kw_context":
        # a keyword named 'context' that is not a Context object is an ordinary attribute
        if not exists:
            return None, None
        attrs = dict(cur[1])
        attrs["context"] = "kitchen"
        sm.set(E1N, None, attrs)
        return wrap_stmt("state.set('pyscript.e1', context='kitchen')"), ("ok", None)
    if op == "attr_assign_context":
        if not exists:
            return wrap_stmt("pyscript.e1.context = 'hall'"), NE
        attrs = dict(cur[1])
        attrs["context"] = "hall"
        sm.set(E1N, None, attrs)
        return wrap_stmt("pyscript.e1.context = 'hall'"), ("ok", None)
    if op == "read_context":
        if not exists:
            return wrap("pyscript.e1.context"), NE
        return wrap("pyscript.e1.context"), (("ok", ("v", repr(cur[1]["context"]))) if "context" in cur[1] else AE)
    if op == "exist_b":
        return wrap("state.exist('pyscript.e1.b')"), ("ok", ("v", repr(bool(exists and "b" in cur[1]))))
    if op in ("del_ent", "delete_ent"):
        code = wrap_stmt("del pyscript.e1") if op == "del_ent" else wrap_stmt("state.delete('pyscript.e1')")
        if not exists:
            return code, NE
        sm.remove(E1N)
        return code, ("ok", None)
    if op in ("del_attr_a", "delete_attr_b"):
        attr = op[-1]
        code = wrap_stmt("del pyscript.e1.a") if op == "del_attr_a" else wrap_stmt("state.delete('pyscript.e1.b')")
        if not exists:
            return code, NE
        if attr not in cur[1]:
            return code, AE
        attrs = dict(cur[1])
        del attrs[attr]
        sm.set(E1N, None, attrs)
        return code, ("ok", None)
    if op == "exist":
        return wrap("state.exist('pyscript.e1')"), ("ok", ("v", repr(exists)))
    if op == "exist_a":
        return wrap("state.exist('pyscript.e1.a')"), ("ok", ("v", repr(exists and "a" in cur[1])))
    if op == "exist_c":
        return wrap("state.exist('pyscript.e1.c')"), ("ok", ("v", repr(exists and "c" in cur[1])))
    if op == "exist_virt":
        return wrap("state.exist('pyscript.e1.last_changed')"), ("ok", ("v", repr(exists)))
    if op == "names":
        names = sorted(k for k in sm.s if k.startswith("pyscript."))
        return wrap("sorted(state.names(domain='pyscript'))"), ("ok", ("v", repr(names)))
    if op == "getattr":
        exp = ("v", repr(sorted(cur[1].items()))) if exists else ("v", "None")
        return wrap("sorted(state.getattr('pyscript.e1').items()) if state.getattr('pyscript.e1') is not None else None"), ("ok", exp)
    if op == "snap":
        code = "try:\n    snaps['s'] = pyscript.e1\n    r = ('ok', canon(snaps['s']))\nexcept Exception as e:\n    r = ('exc', type(e).__name__)\nout.append(r)\n"
        if not exists:
            return code, NE
        m.snap = sv(sm, E1N)
        return code, ("ok", m.snap)
    if op == "snap_check":
        code = wrap("(canon(snaps['s']), sorted(state.getattr(snaps['s']).items())) if 's' in snaps else None")
        if m.snap is None:
            return code, ("ok", ("v", "None"))
        attrs = {k: eval(v) for k, v in m.snap[2]}  # noqa: S307 (reprs of ints/lists written by this file)
        return code, ("ok", ("v", repr((m.snap, sorted(attrs.items())))))
    if op == "ext_set0":
        sm.set(E1N, "0", dict(cur[1]) if exists else {})
        return ("ext", "set", "0", None), None
    if op == "ext_set_on_b":
        sm.set(E1N, "on", {"b": [1]})
        return ("ext", "set", "on", {"b": [1]}), None
    if op == "ext_remove":
        sm.remove(E1N)
        return ("ext", "remove"), None
    raise ValueError(op)


def canon_native(v):
    from custom_components.pyscript.state import StateVal

    if isinstance(v, StateVal):
        attrs = {k: x for k, x in v.__dict__.items() if k not in VIRTUAL}
        virt = [type(getattr(v, n, None)).__name__ for n in ("last_changed", "last_updated", "last_reported")]
        return ("sv", str(v), tuple(sorted((k, repr(x)) for k, x in attrs.items())), getattr(v, "entity_id", None),
                virt[0] if len(set(virt)) == 1 else repr(virt))
    if callable(v):
        return ("callable",)
    if isinstance(v, tuple) and any(isinstance(x, tuple) for x in v):
        return ("v", repr(tuple(x for x in v)))
    return ("v", repr(v))


def hass_canon(w):
    return tuple(sorted((s.entity_id, s.state, tuple(sorted(s.attributes.items(), key=repr)) if False else
                         tuple(sorted(((k, repr(x)) for k, x in s.attributes.items())))) for s in w.hass.states.async_all()
                        if s.entity_id in (E1N, E2N)))


def model_canon(sm):
    return tuple(sorted((k, v[0], tuple(sorted((a, repr(x)) for a, x in v[1].items()))) for k, v in sm.s.items()))


def run_seq(seq, legacy=False):
    """Execute an operation sequence; returns (failure or None, observations, model)."""
    from mc.world import World

    m = M()
    w = World({"hello.py": SCRIPT}, legacy=legacy, started=False)
    try:
        from homeassistant.const import EVENT_HOMEASSISTANT_STARTED

        for ent, (val, attrs) in INITIAL.items():
            w.hass.states.async_set(ent, val, attrs)
        w.hass.bus.async_fire(EVENT_HOMEASSISTANT_STARTED)
        w.settle()
        w.g()["canon"] = canon_native
        obs = []
        for i, op in enumerate(seq):
            before = m.copy()
            code, exp = step(m, op)
            if code is None:
                obs.append((op, "skipped"))
                continue
            if isinstance(code, tuple):
                if code[1] == "set":
                    cur = before.sm.get(E1N)
                    attrs = code[3] if code[3] is not None else (dict(cur[1]) if cur else {})
                    w.hass.states.async_set(E1N, code[2], attrs)
                else:
                    w.hass.states.async_remove(E1N)
                w.settle()
                got = None
            else:
                n0 = len(w.g()["out"])
                box = w.exec_in(code)
                if "exc" in box:
                    return {"kind": "harness-exec", "op": op, "detail": repr(box["exc"])}, obs, m
                outl = w.g()["out"]
                got = outl[n0] if len(outl) > n0 else ("none",)
                got = _norm(got)
            obs.append((op, got))
            if exp is not None and got != _norm(exp):
                return {"kind": "script-observation", "op": op, "step": i, "expected": _norm(exp), "observed": got}, obs, m
            if m.snap is not None:
                # a captured snapshot never changes afterwards (checked after every operation)
                now_snap = _norm(canon_native(w.g()["snaps"]["s"]))
                if now_snap != _norm(m.snap):
                    return {"kind": "snapshot-changed", "op": op, "step": i, "expected": _norm(m.snap), "observed": now_snap}, obs, m
            hc, mc_ = hass_canon(w), model_canon(m.sm)
            if hc != mc_:
                return {"kind": "state-machine", "op": op, "step": i, "expected": mc_, "observed": hc}, obs, m
        if w.errors:
            return {"kind": "loop-exception", "detail": repr(w.errors[0])[:300]}, obs, m
        return None, obs, m
    finally:
        w.close()


def _norm(x):
    if isinstance(x, list):
        return tuple(_norm(i) for i in x)
    if isinstance(x, tuple):
        return tuple(_norm(i) for i in x)
    return x


# ---- precedence configurations ---------------------------------------------------------------
def run_precedence(has_state, has_service, has_var, scope):
    from mc.world import World

    w = World({"hello.py": "out = []\n"})
    try:
        w.g()["canon"] = canon_native
        if has_state:
            w.hass.states.async_set("dom.e1", "S", {})
        if has_service:
            async def handler(call):
                return None
            w.hass.services.async_register("dom", "e1", handler)
        w.settle()
        pre = "class NS:\n    pass\n"
        if scope == "global":
            body = (pre + ("dom = NS()\ndom.e1 = 'V'\n" if has_var else "") + wrap("dom.e1"))
        else:
            body = (pre + "def f():\n" + ("    dom = NS()\n    dom.e1 = 'V'\n" if has_var else "    pass\n") +
                    "    return dom.e1\n" + wrap("f()"))
        w.exec_in(body)
        got = _norm(w.g()["out"][-1])
        if has_var:
            exp = ("ok", ("v", "'V'"))
        elif has_service:
            exp = ("ok", ("callable",))
        elif has_state:
            exp = ("ok", ("sv", "S", (), "dom.e1", "datetime"))
        else:
            exp = ("exc", "NameError")
        return (None if got == exp else {"kind": "precedence", "expected": exp, "observed": got}), got
    finally:
        w.close()


# ---- plan --------------------------------------------------------------------------------------
def bounds(tier):
    return {"e2": "fixpoint over pyscript.e1", "e1_depth": 3 if tier == "thorough" else 2, "operations": len(OPS),
            "precedence_configs": 16}


QUICK_SKIP = ("set_kw_context", "attr_assign_context", "read_context", "set_kw_entity_id")


def reachable(tier="thorough"):
    def mstep(st, a):
        m = M(StateModel(dict(st[0])), st[1])
        step(m, a)
        return (tuple(sorted(m.sm.s.items(), key=lambda kv: kv[0])), m.snap)

    def canon(st):
        return (model_canon(StateModel(dict(st[0]))), st[1] is not None)

    init = (tuple(sorted(StateModel(INITIAL).s.items(), key=lambda kv: kv[0])), None)
    # snapshots multiply the space without adding behaviour: BFS over state-machine states with/without a snapshot
    # quick: the states that only differ in the 'context' attribute are reached in the sequence part (E1) and in the thorough
    # tier; every operation (including those three) is still applied from every state reached here
    names = OPNAMES if tier == "thorough" else [o for o in OPNAMES if o not in QUICK_SKIP]
    return EX.bfs_states(init, names, mstep, canon)


def plan(tier, seed):
    shards = [("prec",)]
    n2 = 16
    shards += [("e2", tier, k, n2) for k in range(n2)]
    depth = 3 if tier == "thorough" else 2
    n1 = 64 if tier == "thorough" else 16
    shards += [("e1", depth, k, n1) for k in range(n1)]
    # snapshots are the script's own objects: all sequences of length 3 (4) over the operations that capture, change and re-read them
    shards += [("e1snap", 4 if tier == "thorough" else 3, k, 4) for k in range(4)]
    return shards


def run_shard(shard):
    res = Shard()
    if shard[0] == "prec":
        for has_state, has_service, has_var in itertools.product((0, 1), repeat=3):
            for scope in ("global", "local"):
                fail, got = run_precedence(has_state, has_service, has_var, scope)
                case = {"prec": [has_state, has_service, has_var, scope]}
                res.case(("prec", has_state, has_service, has_var, scope, got), nontrivial=got[0] == "ok", config="precedence", sample=case)
                if fail:
                    res.fail(f"precedence|s{has_state}v{has_service}p{has_var}|{scope}", case, expected=fail["expected"], observed=fail["observed"])
        return res
    if shard[0] == "e2":
        _, tier, k, n = shard
        reach = reachable(tier)
        i = -1
        for key, path in sorted(reach.items(), key=lambda kv: (len(kv[1]), kv[1])):
            for op in OPNAMES:
                i += 1
                if i % n != k:
                    continue
                seq = tuple(path) + (op,)
                _record(res, seq, "e2", key)
        return res
    if shard[0] == "e1snap":
        _, depth, k, n = shard
        for i, seq in enumerate(EX.sequences(["snap", "snapmod", "read", "read_zz", "snap_check", "getattr", "attr_assign_a2"], depth)):
            if i % n == k:
                _record(res, seq, f"e1snap{depth}", None)
        return res
    _, depth, k, n = shard
    for i, seq in enumerate(EX.sequences(OPNAMES, depth)):
        if i % n == k:
            _record(res, seq, f"e1d{depth}", None)
    return res


def _record(res, seq, cfg, state_key):
    fail, obs, m = run_seq(seq)
    case = {"seq": list(seq)}
    last = obs[-1] if obs else None
    nontrivial = bool(last) and (last[1] is None or (isinstance(last[1], tuple) and last[1][0] == "ok"))
    res.case((seq[-1] if seq else None, last), nontrivial=nontrivial, transitions=len(seq), config=cfg, sample=case,
             state=m.canon())
    if fail:
        res.fail(f"{fail['kind']}|{fail.get('op')}", case, expected=fail.get("expected"), observed=fail.get("observed"), detail=fail)


def replay(case):
    if "prec" in case:
        fail, got = run_precedence(*case["prec"])
        return {"ok": fail is None, "failure": fail, "observed": got}
    fail, obs, m = run_seq(tuple(case["seq"]))
    return {"ok": fail is None, "failure": fail, "observations": obs}
