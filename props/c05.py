"""C05 — state_check_now / state_hold / state_hold_false timing (E1 on a virtual clock, both subsystems)."""

import itertools

from mc.result import Shard
from ref import timeline as TL

PID = "C05"
LEVEL = "model_checking"
RULE = (
    "every combination of state_check_now in {unset, False, True} x state_hold in {None, 0, 10.5} x state_hold_false "
    "in {None, 0, 6.25} x initial truth of the expression x {decorator, task.wait_until} x {default, legacy} subsystem, "
    "each driven through every valid timed history of the tier's length over {T (watched change making the expression "
    "true), T2 (other watched variable changes, expression stays as it is), F (watched change making it false), A "
    "(attribute-only update of the value-watched entity), U (unwatched entity)} at gaps {2, 7, 11} s on a virtual clock "
    "(holds use 10.5 s / 6.25 s so no event ties with a timer), run to a horizon of 40 s after the last action. Oracle: "
    "the reference timeline of ref/timeline.py (virtual time stamp and kwargs of every run; for wait_until the return "
    "time and dictionary). distinct = distinct (configuration class, recorded timeline); non-trivial = at least one run"
)
ASSUMPTIONS = [
    "event times lie on an integer grid, hold offsets are 10.5 s and 6.25 s: ties between events and timers are not explored",
    "reference semantics are DESIGN.md Appendix A.2 (from the property statement and docs/reference.rst)",
]
MAXTASKS = 60

S, H = 10.5, 6.25
EXPR = "pyscript.a == '1' and pyscript.b != '9'"
KINDS = ["T", "T2", "F", "A", "U"]
GAPS = [2, 7, 11]
HORIZON = 40.0


def configs():
    # "decs": the decorated function also carries @time_trigger("startup"), which uses up the first pass of the (legacy) trigger loop
    for form in ("dec", "wait", "decs"):
        for cn in (None, False, True):
            for hold in (None, 0, S):
                for hf in (None, 0, H):
                    for init_true in (False, True):
                        yield (form, cn, hold, hf, init_true)


CONFIGS = list(configs())


def valid(hist, init_true):
    a = "1" if init_true else "0"
    for kind, _ in hist:
        if kind == "T":
            if a == "1":
                return False
            a = "1"
        elif kind == "F":
            if a == "0":
                return False
            a = "0"
    return True


def histories(tier):
    acts_full = [(k, g) for k in KINDS for g in GAPS]
    acts_red = [(k, 7) for k in KINDS]
    out = [()]
    out += [(a,) for a in acts_full]
    out += [(a, b) for a in acts_full for b in acts_full]
    if tier == "thorough":
        out += list(itertools.product(acts_full, repeat=3))
    else:
        out += [h for h in itertools.product(acts_red, repeat=3) if any(k in ("A", "U") for k, _ in h)]
    return out


def script(form, cn, hold, hf):
    kw = []
    if cn is not None:
        kw.append(f"state_check_now={cn}")
    if hold is not None:
        kw.append(f"state_hold={hold}")
    if hf is not None:
        kw.append(f"state_hold_false={hf}")
    opts = "".join(", " + k for k in kw)
    if form in ("dec", "decs"):
        extra = '@time_trigger("startup")\n' if form == "decs" else ""
        return f'''
calls = []
{extra}@state_trigger("{EXPR}"{opts})
def f(**kw):
    v = kw.get("value")
    calls.append((NOW(), kw.get("trigger_type"), kw.get("var_name"), None if v is None else str(v), getattr(v, "x", None)))
'''
    return f'''
calls = []
@time_trigger("startup")
def go():
    r = task.wait_until(state_trigger="{EXPR}"{opts})
    v = r.get("value")
    calls.append((NOW(), r.get("trigger_type"), r.get("var_name"), None if v is None else str(v), getattr(v, "x", None)))
'''


def reference(cfg, hist):
    form, cn, hold, hf, init_true = cfg
    check_now = bool(cn) if form in ("dec", "decs") else (True if cn is None else bool(cn))
    a, b, x = ("1" if init_true else "0"), "0", 0
    t = 0.0
    evals = []
    for kind, gap in hist:
        t += gap
        if kind == "T":
            a = "1"
            x += 1
            evals.append((t, a == "1" and b != "9", ("pyscript.a", "1", x)))
        elif kind == "F":
            a = "0"
            x += 1
            evals.append((t, False, ("pyscript.a", "0", x)))
        elif kind == "T2":
            b = "5" if b != "5" else "6"
            evals.append((t, a == "1" and b != "9", ("pyscript.b", b, None)))
        elif kind == "A":
            x += 1
    occ = TL.occurrences(check_now, hold, hf, init_true, evals, t + HORIZON)
    out = []
    for (tt, args) in occ:
        if args == TL.INITIAL_ARGS:
            out.append((round(tt, 3), "state", None, None, None))
        else:
            out.append((round(tt, 3), "state", args[0], args[1], args[2]))
    if form == "wait":
        out = out[:1]  # wait_until returns at the first occurrence; later ones have no effect
    if form == "decs":
        # the startup run comes first; a definition-time state occurrence in the same instant follows it
        out = [(0.0, "time", None, None, None)] + out
    return out


def run_impl(cfg, legacy, hist):
    from homeassistant.const import EVENT_HOMEASSISTANT_STARTED
    from mc.world import World

    form, cn, hold, hf, init_true = cfg
    w = World({"hello.py": script(form, cn, hold, hf)}, legacy=legacy, started=False)
    try:
        hs = w.hass.states
        hs.async_set("pyscript.a", "1" if init_true else "0", {"x": 0})
        hs.async_set("pyscript.b", "0")
        hs.async_set("pyscript.u", "0")
        w.settle()
        t_def = w.elapsed()
        w.g()["NOW"] = lambda: round(w.elapsed() - t_def, 3)
        w.hass.bus.async_fire(EVENT_HOMEASSISTANT_STARTED)
        w.settle()
        a, b, x, u = ("1" if init_true else "0"), "0", 0, 0
        for kind, gap in hist:
            w.advance(gap)
            if kind == "T":
                x += 1
                a = "1"
                hs.async_set("pyscript.a", "1", {"x": x})
            elif kind == "F":
                x += 1
                a = "0"
                hs.async_set("pyscript.a", "0", {"x": x})
            elif kind == "A":
                x += 1
                hs.async_set("pyscript.a", a, {"x": x})
            elif kind == "T2":
                b = "5" if b != "5" else "6"
                hs.async_set("pyscript.b", b)
            elif kind == "U":
                u += 1
                hs.async_set("pyscript.u", str(u))
            w.settle()
        w.advance(HORIZON)
        calls = [tuple(c) for c in w.g()["calls"]]
        errs = [repr(e)[:200] for e in w.errors]
        return calls, errs
    finally:
        w.close()


def classify(cfg, legacy, hist, exp, got):
    """Divergence signature: subsystem, form, which options are in play, kind of the first divergence."""
    form, cn, hold, hf, init_true = cfg
    opts = f"cn={'set' if cn else 'off'},hold={'y' if hold is not None else 'n'},hf={'y' if hf is not None else 'n'}"
    i = 0
    while i < len(exp) and i < len(got) and exp[i] == got[i]:
        i += 1
    if i >= len(got):
        kind = "missing-run"
    elif i >= len(exp):
        kind = "extra-run"
    elif exp[i][0] != got[i][0]:
        kind = "wrong-time"
    else:
        kind = "wrong-args"
    feats = "+".join(sorted({k for k, _ in hist} & {"A", "U", "T2"})) or "plain"
    return f"{'legacy' if legacy else 'new'}|{form}|{opts}|{kind}|{feats}"


def bounds(tier):
    return {"configurations": len(CONFIGS) * 2, "history_length": 3 if tier == "thorough" else "<=2 (+ length 3 containing A or U at gap 7)",
            "gaps": GAPS, "hold": S, "hold_false": H, "horizon_s": HORIZON}


def plan(tier, seed):
    n = 16 if tier == "thorough" else 4
    return [(ci, legacy, tier, k, n) for ci in range(len(CONFIGS)) for legacy in (False, True) for k in range(n)]


def run_shard(shard):
    ci, legacy, tier, k, n = shard
    cfg = CONFIGS[ci]
    res = Shard()
    cfgname = f"{cfg[0]}/{'legacy' if legacy else 'new'}"
    i = -1
    for hist in histories(tier):
        if not valid(hist, cfg[4]):
            continue
        if tier == "quick" and cfg[0] == "decs" and len(hist) > 1:
            continue  # quick: the startup-trigger form with histories of length <= 1 (thorough: all)
        i += 1
        if i % n != k:
            continue
        exp = reference(cfg, hist)
        got, errs = run_impl(cfg, legacy, hist)
        case = {"cfg": list(cfg), "legacy": legacy, "hist": [list(h) for h in hist]}
        res.case((cfg[:4], tuple(got)), nontrivial=bool(got), transitions=len(hist) + 1, config=cfgname, sample=case)
        if got != exp:
            res.fail(classify(cfg, legacy, hist, exp, got), case, expected=exp, observed=got)
        elif errs:
            res.fail(f"{'legacy' if legacy else 'new'}|{cfg[0]}|loop-exception", case, expected=None, observed=errs)
    return res


def replay(case):
    cfg = tuple(case["cfg"])
    hist = tuple(tuple(h) for h in case["hist"])
    exp = reference(cfg, hist)
    got, errs = run_impl(cfg, case["legacy"], hist)
    return {"ok": got == exp and not errs, "expected": exp, "observed": got, "errors": errs,
            "script": script(cfg[0], cfg[1], cfg[2], cfg[3])}
