"""C07 — @state_active / @time_active / hold_off gate every trigger correctly (E3 + E1, both subsystems)."""

import datetime as dt
import itertools

from mc.result import Shard
from ref import calendar as cal

PID = "C07"
LEVEL = "model_checking"
RULE = (
    "(a) window matching: a pool of 19 range()/cron() specifications (one cron with a seconds field) (daily, wrapping, nested, dated, multi-day dated, mm/dd, mm/dd windows wrapping over the new year, "
    "weekday, sunrise/sunset with offsets, now-relative, range(now, now), sub-second wrap around midnight, today/tomorrow, cron "
    "hour range, cron step/weekday, cron single minute), each plain and 'not'-prefixed: all single specs, all ordered pairs, all "
    "unordered triples (thorough: all ordered triples and unordered quadruples) x every evaluation time derived from the list "
    "on 3 days (each end point of each member -1 us / exact / +1 us, cron minute borders, midnight +/- 1 us, startup, midpoints); "
    "TrigTime.timer_active_check on the real code against an independent matcher (ref/calendar.py): (no positive spec or some "
    "positive spec matches) and no negative spec matches; end points inclusive; wrap-around; cron fields as crontab. "
    "(b) through the decorators, in a fresh Home Assistant on the virtual clock, both subsystems, both decorator orders, event / "
    "state / time triggers: (b1) 28 specification lists x the wall clock set to each derived evaluation time -> the function "
    "runs iff the matcher says so (for a time trigger the evaluation time is trigger_time); (b2) every sequence of 4 occurrences "
    "with gaps {hold_off-1, hold_off+1} s x every pass/fail pattern of the @state_active expression (over the watched entity "
    "with .old and .old.<attribute>, an unwatched gate entity, an undefined entity, and expressions whose false value is 0, '' or "
    "None) x 4 time windows (always, no arguments, a negated window rejecting the second occurrence, a window rejecting the first), with a guard-only entity change before every occurrence (must "
    "not start a run) and a direct call of the function (must ignore the guards): a run exists iff state_active is truthy on the "
    "triggering values and at least hold_off seconds have passed since the last ACCEPTED occurrence. distinct = distinct (list or "
    "sequence, time, verdict); non-trivial = the verdict is 'active' / at least one occurrence is rejected"
)
ASSUMPTIONS = [
    "window denotations as in DESIGN Appendix A.1: range end points evaluated at the occurrence time, the end's missing date taken from the start; weekday = first such day on or after the date",
    "cron() in @time_active matches the whole minute whose fields match (seconds ignored), day-of-month/day-of-week 'or' rule",
    "time zone US/Pacific at the Home Assistant test location; sun times are astral's, truncated to seconds as pyscript does",
    "hold_off boundary (exactly N seconds) is not generated: gaps are N-1 and N+1 seconds",
]
MAXTASKS = 1

STARTUP = dt.datetime(2020, 6, 15, 12, 30, 0)
US = dt.timedelta(microseconds=1)
DAYS = [dt.date(2020, 6, 15), dt.date(2020, 6, 16), dt.date(2020, 6, 14)]

POOL = [
    "range(8:00, 22:00)",
    "range(22:00, 6:30)",
    "range(12:00, 13:00)",
    "range(2020/06/15 10:00, 2020/06/15 18:00)",
    "range(2020/06/14 20:00, 2020/06/16 6:00)",
    "range(mon 9:00, mon 17:00)",
    "range(sunrise, sunset)",
    "range(sunset - 20min, sunrise + 15min)",
    "range(now - 1h, now + 1h)",
    "range(now, now)",
    "cron(* 6-10 * * *)",
    "cron(*/15 12 * * 1)",
    "cron(0 13 15 6 *)",
    "range(06/15 0:00, 06/15 23:59:59.999999)",
    "range(23:59:59.5, 0:00:00.5)",
    "range(today 11:00, tomorrow 11:00)",
    "range(12/20, 01/05)",
    "range(12/31 22:00, 1/1 2:00)",
    "cron(* 12 * * * 0-29)",
]
NY_DAYS = [dt.date(2019, 12, 31), dt.date(2020, 1, 1), dt.date(2019, 12, 19)]


def signed(tier):
    pool = POOL if tier == "thorough" else POOL[:13] + POOL[14:15] + POOL[16:17] + POOL[18:19]
    return [s for p in pool for s in (p, "not " + p)]


def lists(tier):
    sp = signed(tier)
    out = [[s] for s in sp]
    out += [list(p) for p in itertools.product(sp, repeat=2)]
    if tier == "thorough":
        out += [list(p) for p in itertools.product(sp, repeat=3) if len(set(p)) == 3]
        out += [list(c) for c in itertools.combinations(sp, 4)]
    else:
        out += [list(c) for c in itertools.combinations(sp, 3)]
    return out


# ---------------------------------------------------------------------------------------------------------
# oracle
# ---------------------------------------------------------------------------------------------------------
def resolve(D, ref_date, startup, loc):
    """Datetime of a parsed datetime form relative to the calendar day `ref_date`."""
    if D.date[0] == "now":
        return startup + dt.timedelta(seconds=D.offset)
    if D.date[0] == "full":
        day = dt.date(D.date[1], D.date[2], D.date[3])
    elif D.date[0] == "md":
        day = dt.date(ref_date.year, D.date[1], D.date[2])
    elif D.date[0] == "dow":
        day = ref_date + dt.timedelta(days=(D.date[1] - ref_date.weekday()) % 7)
    elif D.date[0] == "rel":
        day = ref_date + dt.timedelta(days=D.date[1])
    else:
        day = ref_date
    return D.on_day(day, loc)


def split_range(spec):
    body = spec[spec.index("(") + 1:-1]
    a, b = body.split(",")
    return cal.parse_dt(a), cal.parse_dt(b)


def spec_matches(spec, t, startup, loc):
    """Unsigned spec at time t."""
    if spec.startswith("cron("):
        fields = spec[5:-1].split()
        c = cal.Cron(" ".join(fields[:5]))
        ok = t.minute in c.minute and t.hour in c.hour and c.day_ok(t.date())
        if len(fields) == 6:  # croniter's optional sixth field: seconds
            ok = ok and t.second in cal._field(fields[5], 0, 59)
        return ok
    A, B = split_range(spec)
    start = resolve(A, t.date(), startup, loc)
    end = resolve(B, start.date(), startup, loc)
    if start <= end:
        return start <= t <= end
    return t >= start or t <= end


def active(specs, t, startup, loc):
    pos, neg = [], []
    for s in specs:
        if s.startswith("not "):
            neg.append(spec_matches(s[4:], t, startup, loc))
        else:
            pos.append(spec_matches(s, t, startup, loc))
    return (any(pos) if pos else True) and not any(neg)


def eval_times(specs, startup, loc, days=DAYS):
    out = set()
    for day in days:
        noon = dt.datetime(day.year, day.month, day.day, 12)
        pts = {dt.datetime(day.year, day.month, day.day), dt.datetime(day.year, day.month, day.day) + dt.timedelta(days=1)}
        for s in specs:
            u = s[4:] if s.startswith("not ") else s
            if u.startswith("cron("):
                c = cal.Cron(" ".join(u[5:-1].split()[:5]))
                if len(u[5:-1].split()) == 6:
                    secs = sorted(cal._field(u[5:-1].split()[5], 0, 59))
                    b0 = dt.datetime(day.year, day.month, day.day, sorted(c.hour)[0], sorted(c.minute)[0])
                    pts.update({b0 + dt.timedelta(seconds=secs[0]), b0 + dt.timedelta(seconds=secs[-1]), b0 + dt.timedelta(seconds=secs[-1] + 1),
                                b0 + dt.timedelta(seconds=45)})
                hs, ms = sorted(c.hour), sorted(c.minute)
                for h in (hs[0], hs[-1]):
                    for m in (ms[0], ms[-1]):
                        b = dt.datetime(day.year, day.month, day.day, h, m)
                        pts.update({b, b + dt.timedelta(seconds=60), b + dt.timedelta(seconds=30)})
            else:
                A, B = split_range(u)
                start = resolve(A, day, startup, loc)
                end = resolve(B, start.date(), startup, loc)
                pts.update({start, end})
        pts = {p for p in pts if abs((p - noon).total_seconds()) <= 2 * 86400}
        sp = sorted(pts)
        for p in sp:
            out.update({p - US, p, p + US})
        for a, b in zip(sp, sp[1:]):
            out.add(a + (b - a) / 2)
    if startup is not None:
        out.add(startup)
    return sorted(out)


# ---------------------------------------------------------------------------------------------------------
# (a) function level
# ---------------------------------------------------------------------------------------------------------
_FN = {}


def fn_setup():
    if _FN:
        return _FN
    from zoneinfo import ZoneInfo

    import astral
    import astral.location
    from homeassistant.util import dt as dt_util

    from custom_components.pyscript import trigger
    from mc.progdiff import drive, install_stub_hass

    hass = install_stub_hass()
    dt_util.set_default_time_zone(ZoneInfo("US/Pacific"))
    loc = astral.location.Location(astral.LocationInfo("home", "", "US/Pacific", 32.87336, -117.22743))
    trigger.sun.get_astral_location = lambda h: (loc, 0)
    trigger.TrigTime.init(hass)
    _FN.update(trigger=trigger, drive=drive, loc=loc)
    return _FN


def impl_active(specs, t):
    f = fn_setup()
    try:
        return f["drive"](f["trigger"].TrigTime.timer_active_check(list(specs) if len(specs) != 1 else specs[0], t, STARTUP))
    except Exception as e:  # noqa
        return ("exc", type(e).__name__, str(e)[:100])


def shape(specs):
    kinds = []
    for s in specs:
        u = s[4:] if s.startswith("not ") else s
        kinds.append(("-" if s.startswith("not ") else "+") + ("cron" if u.startswith("cron") else "range"))
    return ",".join(sorted(set(kinds)))


def check_list(res, specs, tier="thorough"):
    f = fn_setup()
    # quick: unordered triples are evaluated on the startup day only, singles and pairs on all three days
    days = DAYS if (tier == "thorough" or len(specs) < 3) else DAYS[:1]
    if any("12/" in sp for sp in specs):
        days = list(days) + (NY_DAYS if (tier == "thorough" or len(specs) < 3) else NY_DAYS[:2])  # windows that wrap over the new year
    for t in eval_times(specs, STARTUP, f["loc"], days=days):
        want = active(specs, t, STARTUP, f["loc"])
        got = impl_active(specs, t)
        case = {"part": "fn", "specs": specs, "now": t.isoformat()}
        res.case((tuple(specs), t, repr(got)), nontrivial=bool(want), transitions=len(specs), config=f"fn/len{len(specs)}", sample=case)
        if got is not want:
            res.fail(f"fn|{shape(specs)}|{'exception' if isinstance(got, tuple) else 'verdict'}", case, expected=want, observed=got)


# ---------------------------------------------------------------------------------------------------------
# (b) through the decorators
# ---------------------------------------------------------------------------------------------------------
B1_LISTS = [
    ["range(8:00, 22:00)"], ["not range(8:00, 22:00)"], ["range(22:00, 6:30)"], ["not range(22:00, 6:30)"],
    ["range(8:00, 22:00)", "not range(12:00, 13:00)"], ["not range(12:00, 13:00)", "range(8:00, 22:00)"],
    ["range(8:00, 11:00)", "range(12:00, 13:00)"], ["not range(8:00, 11:00)", "not range(12:00, 13:00)"],
    ["range(8:00, 22:00)", "not range(12:00, 13:00)", "not range(9:00, 10:00)"],
    ["range(8:00, 9:00)", "range(12:00, 13:00)", "not range(12:30, 12:45)"],
    ["cron(* 6-10 * * *)"], ["not cron(* 6-10 * * *)"], ["cron(* 6-10 * * *)", "not range(8:00, 9:00)"],
    ["range(8:00, 22:00)", "not cron(*/15 12 * * 1)"], ["cron(0 13 15 6 *)"],
    ["range(sunrise, sunset)"], ["range(sunset - 20min, sunrise + 15min)"], ["not range(sunrise, sunset)", "range(0:00, 12:00)"],
    ["range(2020/06/15 10:00, 2020/06/15 18:00)"], ["range(2020/06/14 20:00, 2020/06/16 6:00)", "not range(12:00, 13:00)"],
    ["range(mon 9:00, mon 17:00)"], ["range(23:59:59.5, 0:00:00.5)"], ["range(today 11:00, tomorrow 11:00)", "not range(22:00, 6:30)"],
    ["range(06/15 0:00, 06/15 23:59:59.999999)", "not cron(* 6-10 * * *)"], [],
    ["range(12:00, 13:00)", "range(8:00, 22:00)", "not range(12:00, 13:00)"],
    ["range(10:00:00, 11:00:00)"], ["not range(11:00:00, 11:00:00)"],
]
KINDS = ["event", "state", "time"]
ORDERS = ["trigger_first", "guards_first"]
ORDERS3 = ["trigger_first", "guards_first", "split"]


def b1_source(kind, order, specs, t_eval):
    args = ", ".join(repr(s) for s in specs)
    if kind == "event":
        trig = "@event_trigger('ev')"
    elif kind == "state":
        trig = "@state_trigger(\"pyscript.v == '1'\")"
    else:
        trig = f"@time_trigger('once({t_eval.year}/{t_eval.month}/{t_eval.day} {t_eval.hour}:{t_eval.minute}:{t_eval.second}.{t_eval.microsecond:06d})')"
    guard = f"@time_active({args})"
    decos = [trig, guard] if order == "trigger_first" else [guard, trig]
    return "runs = []\n" + "\n".join(decos) + "\ndef f(**kw):\n    runs.append((kw.get('trigger_type'), kw.get('trigger_time')))\n"


def run_b1(specs, t_eval, kind, order, legacy):
    from mc.world import World

    # the time trigger needs the world to start before its instant; the others start exactly at the evaluation time
    lead = 1.0 if kind == "time" else 0.0
    start_utc = cal.real(t_eval) - dt.timedelta(seconds=lead)
    # for a time trigger the clock creeps 10 us per callback: the function wakes up a little after the instant, and the window
    # must still be judged at the trigger time
    w = World({"hello.py": "x = 1\n"}, legacy=legacy, start_utc=start_utc, tick=1e-5 if kind == "time" else 0.0)
    try:
        w.hass.states.async_set("pyscript.v", "0")
        w.settle()
        w.write("hello.py", b1_source(kind, order, specs, t_eval))
        w.reload()
        w.settle()
        startup = w.now()
        if kind == "event":
            w.fire("ev", {})
        elif kind == "state":
            w.hass.states.async_set("pyscript.v", "1")
        w.settle()
        if kind == "time":
            w.advance(lead)
            w.settle()
        at = w.now()
        runs = list(w.g("file.hello").get("runs") or [])
        errors = [repr(e)[:200] for e in w.errors]
        return runs, startup, at, errors
    finally:
        w.close()


HOLD = 10
B2_EXPRS = {
    # name -> (expression, needs state trigger)
    "gate": ("pyscript.gate == '1'", False),
    "gate_old": ("pyscript.gate == '1' and pyscript.v.old == '0'", True),
    "gate_old_attr": ("pyscript.gate == '1' and pyscript.v.old.level == 3 and pyscript.v.level == 4", True),
    "gate_undef": ("pyscript.gate == '1' and pyscript.nosuch is None and pyscript.v.old is None", False),
    # falsy values other than False reject as well ("If it evaluates to False (or zero), the trigger is ignored")
    "gate_int": ("int(pyscript.gate)", False),
    "gate_str": ("str(pyscript.gate).replace('0', '')", False),
    "gate_none": ("[1] if pyscript.gate == '1' else None", False),
}
# time windows for the hold_off sequences: the world starts at 12:00:00 local, occurrences at 0, 9|11, 18|20|22, 27..33 s
B2_WINDOWS = {
    "always": (["range(0:00, 23:59:59)"], lambda t: True),
    "noargs": ([], lambda t: True),
    "not_mid": (["range(0:00, 23:59:59)", "not range(12:00:05, 12:00:15)"], lambda t: not 5 <= t <= 15),
    "late": (["range(12:00:05, 13:00)"], lambda t: t >= 5),
}


def b2_source(kind, order, expr, window):
    trig = {"event": "@event_trigger('ev')", "state": "@state_trigger(\"pyscript.v == '1'\")"}[kind]
    guards = [f"@state_active({expr!r})"]
    wargs = "".join(repr(a) + ", " for a in B2_WINDOWS[window][0])
    guards.append(f"@time_active({wargs}hold_off={HOLD})")
    if order == "trigger_first":
        decos = [trig] + guards
    elif order == "guards_first":
        decos = guards + [trig]
    else:
        decos = [guards[1], trig, guards[0]]  # time_active above, state_active below the trigger
    return ("runs = []\n" + "\n".join(decos) + "\ndef f(**kw):\n    runs.append(kw.get('trigger_type'))\n"
            "@service\ndef direct():\n    f(trigger_type='direct')\n")


def run_b2(kind, order, exprname, window, gaps, verdicts, direct_at, legacy):
    from mc.world import World

    expr = B2_EXPRS[exprname][0]
    w = World({"hello.py": "x = 1\n"}, legacy=legacy)
    try:
        w.hass.states.async_set("pyscript.v", "0", {"level": 3})
        w.hass.states.async_set("pyscript.gate", "0")
        w.settle()
        w.write("hello.py", b2_source(kind, order, expr, window))
        w.reload()
        w.settle()
        got = []
        stray = []
        times = []
        for i, v in enumerate(verdicts):
            if i:
                w.advance(gaps[i - 1])
            runs = w.g("file.hello")["runs"]
            n0 = len(runs)
            w.hass.states.async_set("pyscript.gate", "1" if v else "0")
            w.settle()
            if len(runs) != n0:
                stray.append(("guard-entity-change-started-a-run", i))
            if direct_at == i:
                n1 = len(runs)
                w.call_service("pyscript", "direct", {})
                w.settle()
                if runs[n1:] != ["direct"]:
                    stray.append(("direct-call-blocked", i, runs[n1:]))
            n0 = len(runs)
            if kind == "event":
                w.fire("ev", {})
                w.settle()
            else:
                w.hass.states.async_set("pyscript.v", "1", {"level": 4})
                w.settle()
                n_mid = len(runs)
                w.hass.states.async_set("pyscript.v", "0", {"level": 3})
                w.settle()
                if len(runs) != n_mid:
                    stray.append(("non-qualifying-change-started-a-run", i))
            got.append(len(runs) - n0)
            times.append(w.elapsed())
        errors = [repr(e)[:200] for e in w.errors]
        return got, stray, times, errors
    finally:
        w.close()


def b2_model(gaps, verdicts, window="always"):
    out = []
    last = None
    t = 0.0
    for i, v in enumerate(verdicts):
        if i:
            t += gaps[i - 1]
        ok = bool(v) and B2_WINDOWS[window][1](t) and (last is None or t - last >= HOLD)
        out.append(1 if ok else 0)
        if ok:
            last = t
    return out


def b1_cases(tier):
    import astral
    import astral.location

    loc = astral.location.Location(astral.LocationInfo("home", "", "US/Pacific", 32.87336, -117.22743))
    out = []
    for li, specs in enumerate(B1_LISTS):
        times = eval_times(specs, None, loc, days=[DAYS[0]]) if not any("now" in s for s in specs) else []
        # all derived times of the startup day; quick keeps every third (end points exact and +/- 1 us rotate through)
        times = [t for t in times if t is not None and t.date() in (DAYS[0], DAYS[0] + dt.timedelta(days=1), DAYS[0] - dt.timedelta(days=1))]
        if tier == "quick":
            times = times[li % 3::3]
        for ti, t in enumerate(times):
            for kind in KINDS:
                for order in ORDERS:
                    for legacy in (False, True):
                        if tier == "quick" and (ti + KINDS.index(kind) + ORDERS.index(order) + legacy) % 2:
                            continue
                        out.append(("b1", li, t.isoformat(), kind, order, legacy))
    return out


def b2_cases(tier):
    out = []
    for kind in ("event", "state"):
        for order in ("trigger_first", "guards_first", "split"):
            for exprname, (expr, needs_state) in B2_EXPRS.items():
                if needs_state != (kind == "state") and exprname != "gate":
                    continue
                for wi, window in enumerate(B2_WINDOWS):
                    for legacy in (False, True):
                        for gaps in itertools.product((HOLD - 1, HOLD + 1), repeat=3):
                            for verdicts in itertools.product((1, 0), repeat=4):
                                idx = sum(g > HOLD for g in gaps) + sum(verdicts)
                                if tier == "quick":
                                    # every (expression, order, window) combination with a quarter of the sequences each
                                    if (idx + 2 * legacy + wi + ORDERS3.index(order)) % 4 or (exprname not in ("gate", "gate_old") and window not in ("always", "not_mid")):
                                        continue
                                direct_at = (idx % 5) if idx % 5 < 4 else None
                                out.append(("b2", kind, order, exprname, window, gaps, verdicts, direct_at, legacy))
    return out


def bounds(tier):
    return {"signed_pool": len(signed(tier)), "spec_lists": len(lists(tier)), "days": [str(d) for d in DAYS],
            "decorator_window_cases": len(b1_cases(tier)), "hold_off_sequences": len(b2_cases(tier)), "hold_off": HOLD}


def plan(tier, seed):
    n = 48 if tier == "thorough" else 16
    m = 32
    return [("fn", tier, k, n) for k in range(n)] + [("b1", tier, k, m) for k in range(m)] + [("b2", tier, k, m) for k in range(m)]


def judge_b1(c):
    import astral
    import astral.location

    loc = astral.location.Location(astral.LocationInfo("home", "", "US/Pacific", 32.87336, -117.22743))
    _, li, tiso, kind, order, legacy = c
    specs = B1_LISTS[li]
    t = dt.datetime.fromisoformat(tiso)
    runs, startup, at, errors = run_b1(specs, t, kind, order, legacy)
    want = active(specs, t, startup, loc)
    fail = None
    if errors:
        fail = ("loop-exception", None, errors[:2])
    elif len(runs) != (1 if want else 0):
        fail = ("ran-while-inactive" if not want else "blocked-while-active", 1 if want else 0, len(runs))
    return fail, want, runs


def run_shard(shard):
    res = Shard()
    part, tier, k, n = shard
    if part == "fn":
        for i, specs in enumerate(lists(tier)):
            if i % n == k:
                check_list(res, specs, tier)
        return res
    if part == "b1":
        for i, c in enumerate(b1_cases(tier)):
            if i % n != k:
                continue
            fail, want, runs = judge_b1(c)
            specs = B1_LISTS[c[1]]
            case = {"part": "b1", "case": list(c), "specs": specs}
            res.case((c, len(runs)), nontrivial=bool(want), transitions=2, config=("legacy" if c[5] else "new") + "/b1/" + c[3], sample=case)
            if fail:
                res.fail(f"b1|{'legacy' if c[5] else 'new'}|{fail[0]}|{shape(specs) or 'empty'}|n={len(specs)}", case, expected=fail[1], observed=fail[2])
        return res
    for i, c in enumerate(b2_cases(tier)):
        if i % n != k:
            continue
        _, kind, order, exprname, window, gaps, verdicts, direct_at, legacy = c
        got, stray, times, errors = run_b2(kind, order, exprname, window, gaps, verdicts, direct_at, legacy)
        want = b2_model(gaps, verdicts, window)
        case = {"part": "b2", "case": [kind, order, exprname, window, list(gaps), list(verdicts), direct_at, legacy]}
        res.case((c[1:], tuple(got)), nontrivial=0 in want, transitions=len(verdicts) * 2, config=("legacy" if legacy else "new") + "/b2/" + kind, sample=case)
        sub = "legacy" if legacy else "new"
        if errors:
            res.fail(f"b2|{sub}|loop-exception", case, expected=None, observed=errors[:2])
        elif stray:
            res.fail(f"b2|{sub}|{stray[0][0]}|{kind}", case, expected="no run", observed=repr(stray))
        elif got != want:
            # which way: an occurrence ran inside the hold-off of an accepted one, or was ignored because of a rejected one
            first = [i for i, (g, x) in enumerate(zip(got, want)) if g != x][0]
            kind_f = "ran-when-it-should-not" if got[first] > want[first] else "ignored-after-a-rejected-occurrence"
            res.fail(f"b2|{sub}|{kind_f}|{order}|{exprname}|{window}", case, expected=want, observed=got)
    return res


def replay(case):
    if case["part"] == "fn":
        f = fn_setup()
        t = dt.datetime.fromisoformat(case["now"])
        want = active(case["specs"], t, STARTUP, f["loc"])
        got = impl_active(case["specs"], t)
        return {"ok": got is want, "expected": want, "observed": got, "specs": case["specs"], "now": case["now"]}
    if case["part"] == "b1":
        c = case["case"]
        fail, want, runs = judge_b1(tuple(c))
        return {"ok": fail is None, "failure": repr(fail), "expected_active": want, "runs": repr(runs), "specs": case["specs"]}
    kind, order, exprname, window, gaps, verdicts, direct_at, legacy = case["case"]
    got, stray, times, errors = run_b2(kind, order, exprname, window, tuple(gaps), tuple(verdicts), direct_at, legacy)
    want = b2_model(tuple(gaps), tuple(verdicts), window)
    return {"ok": got == want and not stray and not errors, "expected": want, "observed": got, "stray": repr(stray), "errors": errors}
