"""C11 — each file has an isolated global context; modules are shared singletons (E3 vs CPython)."""

import importlib
import itertools
import os
import shutil
import sys
import tempfile

from mc.result import Shard

PID = "C11"
LEVEL = "model_checking"
RULE = (
    "every program of the multi-file family: two script files (and a module pair: plain module m1, package m2 with a "
    "sibling imported relatively) that all define the same global names (v, get_v, set_v, boom, class K); each script "
    "imports m1 in one of 6 forms {import m1, import m1 as x, from m1 import names (colliding with its own), from m1 "
    "import * (before or after its own definitions), import m2 (package with 'from . import sib' / 'from .sib import h')} "
    "and runs a call chain script -> module function -> (module global | sibling) that reads and writes 'its' v, calls a "
    "raising function and catches it, then resolves its own names again; the chain is entered at load time, from a "
    "service call, from a startup trigger or from a created task, in every combination for the two scripts. Oracle: the "
    "same files imported as ordinary modules by CPython (decorator lines dropped, deferred entries called in the same "
    "order): the observation logs and the final value of v in every file are equal; a script never sees the other "
    "script's names. distinct = distinct (forms, entries, logs); non-trivial = the log shows a cross-file call"
)
ASSUMPTIONS = [
    "CPython importing the same sources as modules is the reference for name resolution",
    "scripts are loaded in context-name order (file.a before file.b), deferred entries are driven a then b",
]
MAXTASKS = 30

MODULE_M1 = '''
v = 'm1'
_private = ['m1-private']
__dunder_like = 'm1-dunder'
hits = []
def get_v():
    return v
def set_v(x):
    global v
    v = x
def boom():
    raise ValueError('boom-' + v)
def apply(f):
    return ('applied', f(), v)
def maker():
    def inner():
        return ('inner', v)
    return inner
def ctxname():
    return pyscript.get_global_ctx()
class K:
    tag = 'K-m1'
    def who(self):
        return (self.tag, v)
'''

MODULE_M2_INIT = '''
FROM_SIB
from . import other
from . import sub
v = 'm2'
def set_other(x):
    other.set_v(x)
def other_v():
    return (other.get(), sib.via_other(), sib.oth_get(), sub.sub_other())
def get_v():
    return v
def set_v(x):
    global v
    v = x
def boom():
    raise ValueError('boom-' + v)
def via_sib():
    return SIBCALL
def apply(f):
    return ('applied', f(), v)
def maker():
    def inner():
        return ('inner', v)
    return inner
def ctxname():
    return pyscript.get_global_ctx()
class K:
    tag = 'K-m2'
    def who(self):
        return (self.tag, v)
'''

MODULE_M2_OTHER = '''
v = 'other'
def get():
    return v
def set_v(x):
    global v
    v = x
'''

MODULE_M2_SUB = '''
from .. import other as up_other
from ..other import get as up_get
from ..sib import via_other as up_via
def sub_other():
    return ('sub', up_other.get(), up_get(), up_via())
'''

MODULE_M2_SIB = '''
from . import other
from .other import get as oth_get
v = 'sib'
def via_other():
    return ('sib.other', other.get())
def h():
    return ('h', v)
def set_v(x):
    global v
    v = x
'''

PLACEMENTS = {
    "scripts": ("a.py", "file.a", "b.py", "file.b"),
    "appfile_apppkg": ("apps/a.py", "apps.a", "apps/b/__init__.py", "apps.b"),
    "apppkg_script": ("apps/a/__init__.py", "apps.a", "b.py", "file.b"),
    "apppkg_apppkg": ("apps/a/__init__.py", "apps.a", "apps/b/__init__.py", "apps.b"),
    "script_subdir": ("scripts/a.py", "scripts.a", "scripts/sub/b.py", "scripts.sub.b"),
}
FORMS = ["import", "import_as", "from_names_after", "from_names_before", "from_star_before", "from_star_after", "pkg", "pkg_from"]
ENTRIES = ["load", "service", "startup", "task"]


def script_src(me, form, entry, pyscript):
    other = "b" if me == "a" else "a"
    own = f'''
v = '{me}'
def get_v():
    return v
def set_v(x):
    global v
    v = x
def boom():
    raise ValueError('boom-' + v)
def own_v():
    return ('own', v)
_private = ['{me}-private']
class K:
    tag = 'K-{me}'
    def who(self):
        return (self.tag, v)
'''
    if form == "import":
        head, M = "import m1\n" + own, "m1."
    elif form == "import_as":
        head, M = "import m1 as mm\n" + own, "mm."
    elif form == "from_names_after":
        # the imported names replace the script's own definitions (as in Python)
        head, M = own + "from m1 import get_v, set_v, boom, K, apply, maker, ctxname\n", ""
    elif form == "from_names_before":
        # the script's own definitions replace the imported names
        head, M = "from m1 import get_v, set_v, boom, K, apply, maker, ctxname\n" + own, ""
    elif form == "from_star_before":
        head, M = "from m1 import *\n" + own, ""
    elif form == "from_star_after":
        # the star import replaces the file's public names, but never touches names that start with an underscore
        head, M = own + "from m1 import *\n", ""
    elif form == "pkg":
        head, M = "import m2\n" + own, "m2."
    else:
        head, M = "from m2 import via_sib, sib, apply, maker, ctxname, other_v, set_other\n" + own, ""
    G, S, B, KK = M + "get_v()", M + "set_v", M + "boom()", M + "K()"
    if form == "pkg_from":
        G, S = "via_sib()", "sib.set_v"
    AP, MK, CN = M + "apply", M + "maker", M + "ctxname"
    OTHER = ""
    if form in ("pkg", "pkg_from"):
        # a module of the package imported relatively by the package and by its sibling is one shared instance
        OTHER = (f"    log.append(('other', {M}other_v()))\n    {M}set_other('o-{me}')\n    log.append(('other2', {M}other_v()))\n")
    chain = f'''
log = []
def chain():
    log.append(('{me}.own', v, get_v()))
    log.append(('mod.get', {G}))
    {S}('set-by-{me}')
    log.append(('mod.get2', {G}))
    try:
        {B}
    except ValueError as e:
        log.append(('caught', str(e)))
    log.append(('{me}.after', v))
    log.append(('cb', {AP}(own_v), {AP}(lambda: ('lam', v))))
    log.append(('closure', {MK}()()))
    log.append(('ctx', pyscript.get_global_ctx(), {CN}()))
    log.append(('{me}.after2', v, own_v()))
{OTHER}    log.append(('K', {KK}.who()))
    try:
        log.append(('peek', only_in_{other}))
    except NameError as e:
        log.append(('isolated', 'NameError'))
    set_v('{me}-final') if {str(form not in ('from_names_after', 'from_star_after'))} else None
    log.append(('private', _private, '_private' in globals(), [n for n in sorted(globals()) if 'dunder_like' in n]))
    log.append(('{me}.end', v))
only_in_{me} = 'secret-{me}'
'''
    if entry == "load":
        tail = "chain()\n"
    elif not pyscript:
        tail = ""  # the reference driver calls chain() itself
    elif entry == "service":
        tail = f"@service\ndef run_{me}():\n    chain()\n"
    elif entry == "startup":
        tail = "@time_trigger('startup')\ndef run_start():\n    chain()\n"
    else:
        tail = f"@service\ndef run_{me}():\n    t = task.create(chain)\n    task.wait({{t}})\n"
    return head + chain + tail


def module_files(sibform):
    if sibform == "from_dot":
        init = MODULE_M2_INIT.replace("FROM_SIB", "from . import sib").replace("SIBCALL", "sib.h()")
    else:
        init = MODULE_M2_INIT.replace("FROM_SIB", "from .sib import h\nfrom . import sib").replace("SIBCALL", "h()")
    return {"m1.py": MODULE_M1, "m2/__init__.py": init, "m2/sib.py": MODULE_M2_SIB, "m2/other.py": MODULE_M2_OTHER,
            "m2/sub/__init__.py": MODULE_M2_SUB}


def canon(v):
    if isinstance(v, (list, tuple)):
        return tuple(canon(x) for x in v)
    return v


class _PyscriptShim:
    """`pyscript.get_global_ctx()` of the reference: the context name of the file whose code is running."""

    def __init__(self, names):
        self.names = names

    def get_global_ctx(self):
        return self.names[sys._getframe(1).f_globals["__name__"]]


def run_reference(fa, ea, fb, eb, sibform, place):
    import builtins

    pl = PLACEMENTS[place]
    builtins.pyscript = _PyscriptShim({"a": pl[1], "b": pl[3], "m1": "modules.m1", "m2": "modules.m2", "m2.sib": "modules.m2.sib",
                                      "m2.other": "modules.m2.other", "m2.sub": "modules.m2.sub"})
    try:
        return _run_reference(fa, ea, fb, eb, sibform)
    finally:
        del builtins.pyscript


def _run_reference(fa, ea, fb, eb, sibform):
    base = tempfile.mkdtemp(prefix=f"verif-c11-{os.getpid()}-", dir="/dev/shm" if os.path.isdir("/dev/shm") else None)
    try:
        files = dict(module_files(sibform))
        files["a.py"] = script_src("a", fa, ea, False)
        files["b.py"] = script_src("b", fb, eb, False)
        for rel, src in files.items():
            fp = os.path.join(base, rel)
            os.makedirs(os.path.dirname(fp), exist_ok=True)
            open(fp, "w").write(src)
        for n in ("a", "b", "m1", "m2", "m2.sib", "m2.other", "m2.sub"):
            sys.modules.pop(n, None)
        sys.path.insert(0, base)
        try:
            importlib.invalidate_caches()
            exc = {}
            mods = {}
            for me in ("a", "b"):
                try:
                    mods[me] = importlib.import_module(me)
                except Exception as e:  # noqa
                    exc[me] = type(e).__name__
            # deferred entries: startup triggers fire when the contexts start (a then b), then services in call order
            order = [(me, e) for me, e in (("a", ea), ("b", eb)) if e == "startup"] + \
                    [(me, e) for me, e in (("a", ea), ("b", eb)) if e in ("service", "task")]
            for me, e in order:
                if me in mods:
                    try:
                        mods[me].chain()
                    except Exception as ex:  # noqa
                        exc[me + ".chain"] = type(ex).__name__
            out = {"exc": exc}
            for me in ("a", "b"):
                if me in mods:
                    out[me] = {"log": canon(mods[me].log), "v": mods[me].v}
            for mn in ("m1", "m2", "m2.sib", "m2.other"):
                if mn in sys.modules:
                    out[mn] = {"v": sys.modules[mn].v}
            return out
        finally:
            sys.path.remove(base)
            for n in ("a", "b", "m1", "m2", "m2.sib", "m2.other", "m2.sub"):
                sys.modules.pop(n, None)
    finally:
        shutil.rmtree(base, ignore_errors=True)


def run_pyscript(fa, ea, fb, eb, sibform, place, legacy):
    from mc.world import World

    pl = PLACEMENTS[place]
    cn = {"a": pl[1], "b": pl[3]}
    files = {"modules/" + k: v for k, v in module_files(sibform).items()}
    files[pl[0]] = script_src("a", fa, ea, True)
    files[pl[2]] = script_src("b", fb, eb, True)
    w = World(files, legacy=legacy, config={"apps": {"a": {}, "b": {}}})
    try:
        exc = {}
        for me, e in (("a", ea), ("b", eb)):
            if w.ctx(cn[me]) is None:
                exc[me] = "load-failed"
        for me, e in (("a", ea), ("b", eb)):
            if e in ("service", "task") and w.hass.services.has_service("pyscript", f"run_{me}"):
                w.call_service("pyscript", f"run_{me}", {})
        w.settle()
        out = {"exc": exc}
        for me in ("a", "b"):
            g = w.g(cn[me])
            if g is not None:
                out[me] = {"log": canon(g.get("log", [])), "v": g.get("v")}
        from custom_components.pyscript.global_ctx import GlobalContextMgr

        extra_ctx = sorted(n for n in GlobalContextMgr.contexts if n.startswith("modules.") and n not in (
            "modules.m1", "modules.m2", "modules.m2.sib", "modules.m2.other", "modules.m2.sub"))
        if extra_ctx:
            out["unexpected_module_contexts"] = extra_ctx
        for mn, cn in (("m1", "modules.m1"), ("m2", "modules.m2"), ("m2.sib", "modules.m2.sib"), ("m2.other", "modules.m2.other")):
            g = w.g(cn)
            if g is not None:
                out[mn] = {"v": g.get("v")}
        if w.errors:
            out["loop_errors"] = [repr(e)[:200] for e in w.errors]
        return out
    finally:
        w.close()


EXTRA_FILES = {
    "modules/m1.py": "LIMIT = 1000\ndef deco(fn):\n    def w(**kw):\n        return fn(**kw)\n    return w\n",
    "a.py": ("from m1 import deco\nLIMIT = 5\nlog = []\n@state_trigger('int(pyscript.lv) > LIMIT')\n@deco\ndef trg(**kw):\n    log.append(('trg', LIMIT))\n"
             "@state_trigger('int(pyscript.lv) > LIMIT')\ndef plain(**kw):\n    log.append(('plain', LIMIT))\n"),
    "b.py": ("def switch():\n    pyscript.set_global_ctx('file.a')\nmarker_b = 'b'\nswitch()\nafter = 'after-switch'\ndef later():\n    global gv\n    gv = 1\n"
             "    return LIMIT\nseen = later()\n"),
}


def run_extras(legacy):
    """(1) a trigger function wrapped by a decorator that lives in another module still has its trigger expression evaluated against the
    globals of the file that defines it; (2) after pyscript.set_global_ctx() was called inside a function, the rest of the file - top-level
    assignments, definitions, global declarations, lookups - consistently lives in the new context."""
    from mc.world import World

    w = World(EXTRA_FILES, legacy=legacy)
    try:
        w.hass.states.async_set("pyscript.lv", "3")
        w.settle()
        w.hass.states.async_set("pyscript.lv", "7")
        w.settle()
        ga, gb = w.g("file.a"), w.g("file.b")
        got = {"log": sorted(ga["log"]), "where": {k: (k in ga, k in gb) for k in ("after", "gv", "seen", "marker_b", "later")}, "seen": ga.get("seen")}
        want = {"log": [("plain", 5), ("trg", 5)], "where": {"after": (True, False), "gv": (True, False), "seen": (True, False), "marker_b": (False, True),
                                                              "later": (True, False)}, "seen": 5}
        if w.errors:
            got["loop_errors"] = [repr(e)[:200] for e in w.errors]
        return (None if got == want else {"expected": want, "observed": got}), got
    finally:
        w.close()


def programs(tier):
    forms = FORMS
    for fa, fb in itertools.product(forms, repeat=2):
        for ea, eb in itertools.product(ENTRIES, repeat=2):
            if tier == "quick" and (ea, eb) not in (("load", "load"), ("load", "service"), ("service", "load"), ("startup", "service"),
                                                    ("task", "task"), ("service", "startup")):
                continue
            for sibform in (("from_dot", "from_name") if "pkg" in fa + fb else ("from_dot",)):
                for place in PLACEMENTS:
                    if tier == "quick" and place != "scripts" and (fa == fb or (ea, eb) not in (("load", "service"), ("task", "task"))):
                        continue
                    yield (fa, ea, fb, eb, sibform, place)


def bounds(tier):
    return {"programs": sum(1 for _ in programs(tier)), "import_forms": FORMS, "entries": ENTRIES, "placements": list(PLACEMENTS)}


def plan(tier, seed):
    n = 32
    return [(tier, legacy, k, n) for legacy in (False, True) for k in range(n)] + [("extras", legacy, 0, 1) for legacy in (False, True)]


def run_shard(shard):
    tier, legacy, k, n = shard
    res = Shard()
    if tier == "extras":
        fail, got = run_extras(legacy)
        case = {"extras": True, "legacy": legacy}
        res.case(("extras", repr(got)), nontrivial=True, transitions=3, config=("legacy" if legacy else "new") + "/extras", sample=case)
        if fail:
            res.fail(f"{'legacy' if legacy else 'new'}|extras", case, expected=fail["expected"], observed=fail["observed"])
        return res
    for i, prog in enumerate(programs(tier)):
        if i % n != k:
            continue
        ref = run_reference(*prog)
        got = run_pyscript(*prog, legacy)
        case = {"prog": list(prog), "legacy": legacy}
        res.case((prog, repr(got)), nontrivial=any("mod.get2" in repr(got.get(me, {})) for me in ("a", "b")), transitions=4,
                 config="legacy" if legacy else "new", sample=case)
        if got != ref:
            diffs = [k2 for k2 in sorted(set(ref) | set(got)) if ref.get(k2) != got.get(k2)]
            res.fail(f"{'legacy' if legacy else 'new'}|diff={'+'.join(diffs)}|{prog[0]}|{prog[2]}", case, expected=ref, observed=got)
    return res


def replay(case):
    if case.get("extras"):
        fail, got = run_extras(case["legacy"])
        return {"ok": fail is None, "failure": fail}
    prog = tuple(case["prog"])
    ref = run_reference(*prog)
    got = run_pyscript(*prog, case["legacy"])
    return {"ok": ref == got, "expected": ref, "observed": got, "a.py": script_src("a", prog[0], prog[1], True)}
