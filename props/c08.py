"""C08 — event, MQTT and webhook triggers deliver each message exactly once; contexts (E1, both subsystems)."""

import json as _json

from mc import explore as EX
from mc.result import Shard

PID = "C08"
LEVEL = "model_checking"
RULE = (
    "every sequence of the delivery alphabet up to the tier's depth (events of matching / other types with payloads {}, "
    "{arg:1}, {arg:2}, nested; MQTT publishes on matching / non-matching topics incl. JSON payloads; webhook requests "
    "with json and form bodies, allowed and disallowed methods; time advances of 3 s and 10 s) x every trigger "
    "configuration below (plain, filter, several decorators with shared / distinct types, several functions, kwargs "
    "overriding data, sleeping body, emitting body) x both subsystems, settled after each delivery and as bursts (next "
    "delivery after k in {0,1,2} loop callbacks, at most D deviations). Oracle: per function the ordered list of run "
    "starts with virtual start time, trigger_type, event_type/topic/webhook_id, payload fields and decorator kwargs "
    "equals the filtered delivery list; every event / state change / service call emitted by a run carries a context "
    "whose parent is the triggering event's context and that differs per run; event.fire data equals the given keyword "
    "arguments. distinct = distinct (configuration, recorded run list); non-trivial = at least one run"
)
ASSUMPTIONS = [
    "MQTT topic matching is done by the (fake) broker at Home Assistant's mqtt.async_subscribe seam, webhooks enter through "
    "homeassistant.components.webhook.async_handle_webhook with HA's MockRequest",
    "runs started by one delivery through several decorators of one function may start in either order",
]
MAXTASKS = 40

HEADER = '''
calls = []
def rec(fid, kw, tag="start"):
    p = kw.get("payload")
    calls.append((fid, tag, NOW(), kw.get("trigger_type"), kw.get("event_type") or kw.get("topic") or kw.get("webhook_id"),
                  kw.get("arg"), repr(kw.get("nested")), repr(p) if p is not None else None, repr(kw.get("payload_obj")),
                  kw.get("who"), CTX(kw.get("context"))))
'''

# configuration: name -> (channel, script body, [decorator descriptors per function])
# descriptor: (fid, match(delivery) -> bool, kwargs override dict)
def _ev(type_, flt=None):
    def m(d):
        if d[0] != "event" or d[1] != type_:
            return False
        if flt is None:
            return True
        try:
            return bool(flt(d[2]))
        except Exception:  # noqa  (exception in a filter: not truthy)
            return False
    return m


CONFIGS = {}


def cfg(name, channel, body, decs):
    CONFIGS[name] = (channel, HEADER + body, decs)


cfg("ev_plain", "event", '''
@event_trigger("e1")
def f(**kw):
    rec("f", kw)
''', [("f", _ev("e1"), {})])
cfg("ev_filter", "event", '''
@event_trigger("e1", "arg == 1")
def f(**kw):
    rec("f", kw)
''', [("f", _ev("e1", lambda d: d["arg"] == 1), {})])
cfg("ev_two_dec_distinct", "event", '''
@event_trigger("e1", kwargs={"who": 1})
@event_trigger("e2", kwargs={"who": 2})
def f(**kw):
    rec("f", kw)
''', [("f", _ev("e1"), {"who": 1}), ("f", _ev("e2"), {"who": 2})])
cfg("ev_two_dec_shared", "event", '''
@event_trigger("e1", kwargs={"who": 1})
@event_trigger("e1", "arg == 2", kwargs={"who": 2})
def f(**kw):
    rec("f", kw)
''', [("f", _ev("e1"), {"who": 1}), ("f", _ev("e1", lambda d: d["arg"] == 2), {"who": 2})])
cfg("ev_two_funcs", "event", '''
@event_trigger("e1")
def f(**kw):
    rec("f", kw)
@event_trigger("e1", "arg != 2")
def g(**kw):
    rec("g", kw)
''', [("f", _ev("e1"), {}), ("g", _ev("e1", lambda d: d["arg"] != 2), {})])
cfg("ev_two_funcs_kwargs", "event", '''
@event_trigger("e1", kwargs={"who": 1})
def f(**kw):
    rec("f", kw)
@event_trigger("e1")
def g(**kw):
    rec("g", kw)
@event_trigger("e1", kwargs={"who": 3, "arg": "G3"})
def h(**kw):
    rec("h", kw)
''', [("f", _ev("e1"), {"who": 1}), ("g", _ev("e1"), {}), ("h", _ev("e1"), {"who": 3, "arg": "G3"})])
cfg("ev_kwargs_override", "event", '''
@event_trigger("e1", kwargs={"who": 5, "arg": "OVR"})
def f(**kw):
    rec("f", kw)
''', [("f", _ev("e1"), {"who": 5, "arg": "OVR"})])
cfg("ev_sleep", "event", '''
@event_trigger("e1")
def f(**kw):
    rec("f", kw)
    task.sleep(5)
    rec("f", kw, "end")
''', [("f", _ev("e1"), {})])
cfg("ev_emit", "event", '''
cnt = []
@event_trigger("e1")
def f(**kw):
    rec("f", kw)
    event.fire("out", arg=kw.get("arg"), extra=[1, 2])
    cnt.append(1)
    pyscript.o = str(len(cnt))
    pyscript.odel = "x"
    del pyscript.odel
    test.sink(v=kw.get("arg"))
    service.call("test", "sink", v2=kw.get("arg"))
    test.sink_only(v3=kw.get("arg"))
    service.call("test", "sink_opt", v4=kw.get("arg"), return_response=True)
    event.fire("out2", context=kw["context"], a=1)
    event.fire("out3", context="notctx", b=2)
    rec("f", kw, "end")
''', [("f", _ev("e1"), {})])


def _mq(flt_topic, flt=None):
    from mc.world import FakeBroker

    def m(d):
        if d[0] != "mqtt" or not FakeBroker.matches(flt_topic, d[1]):
            return False
        if flt is None:
            return True
        try:
            return bool(flt(d))
        except Exception:  # noqa
            return False
    return m


cfg("mq_plain", "mqtt", '''
@mqtt_trigger("t/a")
def f(**kw):
    rec("f", kw)
''', [("f", _mq("t/a"), {})])
cfg("mq_plus_filter", "mqtt", '''
@mqtt_trigger("t/+", "payload == 'on'")
def f(**kw):
    rec("f", kw)
''', [("f", _mq("t/+", lambda d: d[2] == "on"), {})])
cfg("mq_hash_two_funcs", "mqtt", '''
@mqtt_trigger("t/#", kwargs={"who": 1})
def f(**kw):
    rec("f", kw)
@mqtt_trigger("t/a")
@mqtt_trigger("t/a", "payload_obj['k'] == 1", kwargs={"who": 3})
def g(**kw):
    rec("g", kw)
    task.sleep(5)
''', [("f", _mq("t/#"), {"who": 1}), ("g", _mq("t/a"), {}), ("g", _mq("t/a", lambda d: _json.loads(d[2])["k"] == 1), {"who": 3})])


def _wh(hook, methods=("POST", "PUT"), flt=None):
    def m(d):
        if d[0] != "webhook" or d[1] != hook or d[3] not in methods:
            return False
        if flt is None:
            return True
        try:
            return bool(flt(d[2]))
        except Exception:  # noqa
            return False
    return m


cfg("wh_plain", "webhook", '''
@webhook_trigger("hook1")
def f(**kw):
    rec("f", kw)
''', [("f", _wh("hook1"), {})])
cfg("wh_filter_methods", "webhook", '''
@webhook_trigger("hook1", "payload['arg'] == '1'", methods=["POST", "GET"], kwargs={"who": 4})
def f(**kw):
    rec("f", kw)
@webhook_trigger("hook2")
def g(**kw):
    rec("g", kw)
    task.sleep(5)
''', [("f", _wh("hook1", ("POST", "GET"), lambda p: str(p["arg"]) == "1"), {"who": 4}), ("g", _wh("hook2"), {})])

ALPHABET = {
    "event": [("event", "e1", {}), ("event", "e1", {"arg": 1}), ("event", "e1", {"arg": 2}),
              ("event", "e1", {"arg": 1, "nested": {"k": [1]}}), ("event", "e2", {"arg": 1}), ("event", "other", {"arg": 1}),
              ("adv", 3), ("adv", 10)],
    "mqtt": [("mqtt", "t/a", "on"), ("mqtt", "t/a", "off"), ("mqtt", "t/b", "on"), ("mqtt", "u/a", "on"),
             ("mqtt", "t/a", '{"k": 1}'), ("mqtt", "t/a/b", '{"k": 2}'), ("adv", 3), ("adv", 10)],
    "webhook": [("webhook", "hook1", {"arg": "1"}, "POST", "json"), ("webhook", "hook1", {"arg": "2"}, "POST", "form"),
                ("webhook", "hook1", {"arg": "1"}, "GET", "form"), ("webhook", "hook1", {"arg": "1"}, "PUT", "json_charset"),
                ("webhook", "hook2", {"arg": "1"}, "POST", "json"), ("webhook", "hook9", {"arg": "1"}, "POST", "json"),
                ("adv", 3), ("adv", 10)],
}


def expected_run(fid, d, kwargs, t, ctxid):
    """The recorded tuple a matching delivery must produce."""
    if d[0] == "event":
        data = dict(d[2])
        data.update(kwargs)
        return (fid, "start", t, "event", d[1], data.get("arg"), repr(data.get("nested")), None, "None", data.get("who"), ctxid)
    if d[0] == "mqtt":
        try:
            obj = _json.loads(d[2])
            has = True
        except ValueError:
            obj, has = None, False
        return (fid, "start", t, "mqtt", d[1], None, "None", repr(d[2]), repr(obj) if has else "None", kwargs.get("who"), None)
    payload = dict(d[2])
    return (fid, "start", t, "webhook", d[1], None, "None", repr(payload), "None", kwargs.get("who"), None)


def run_case(cname, legacy, seq, sched):
    from homeassistant.core import Context
    from mc.world import World

    channel, src, decs = CONFIGS[cname]
    w = World({"hello.py": src}, legacy=legacy, started=False)
    try:
        from homeassistant.const import EVENT_HOMEASSISTANT_STARTED

        ctx_ids = {}

        def ctxfun(c):
            return None if c is None else ctx_ids.get(c.id, "unknown:" + c.id[:6])

        t0 = [0.0]
        w.g()["NOW"] = lambda: round(w.elapsed() - t0[0], 3)
        w.g()["CTX"] = ctxfun
        sink_calls = []

        async def sink(call):
            sink_calls.append((dict(call.data), call.context))

        w.hass.services.async_register("test", "sink", sink)

        async def sink_resp(call):
            sink_calls.append((dict(call.data), call.context))
            return {"echo": dict(call.data)} if call.return_response else None

        from homeassistant.core import SupportsResponse

        w.hass.services.async_register("test", "sink_only", sink_resp, supports_response=SupportsResponse.ONLY)
        w.hass.services.async_register("test", "sink_opt", sink_resp, supports_response=SupportsResponse.OPTIONAL)
        bus_out = []
        w.hass.bus.async_listen("out", lambda ev: bus_out.append(("out", dict(ev.data), ev.context)))
        w.hass.bus.async_listen("out2", lambda ev: bus_out.append(("out2", dict(ev.data), ev.context)))
        w.hass.bus.async_listen("out3", lambda ev: bus_out.append(("out3", dict(ev.data), ev.context)))
        w.hass.bus.async_listen("state_changed", lambda ev: bus_out.append(("state", ev.data["entity_id"], ev.context))
                                if ev.data["entity_id"] == "pyscript.o" else None)
        w.hass.bus.async_listen("state_changed", lambda ev: bus_out.append(("odel", ev.data.get("new_state") is None, ev.context))
                                if ev.data["entity_id"] == "pyscript.odel" else None)
        w.hass.bus.async_fire(EVENT_HOMEASSISTANT_STARTED)
        w.settle()
        t0[0] = w.elapsed()
        expected = {fid: [] for fid, _, _ in decs}
        n = 0
        fired_ctx = []
        for i, d in enumerate(seq):
            if d[0] == "adv":
                w.advance(d[1])
            else:
                t = round(w.elapsed() - t0[0], 3)
                ctxid = None
                if d[0] == "event":
                    ctx = Context()
                    ctxid = f"c{i}"
                    ctx_ids[ctx.id] = ctxid
                    fired_ctx.append(ctx)
                    w.hass.bus.async_fire(d[1], dict(d[2]), context=ctx)
                elif d[0] == "mqtt":
                    w.broker.publish(w.loop, d[1], d[2])
                else:
                    w.webhook(d[1], d[2], d[3], d[4])
                groups = {}
                for fid, match, kwargs in decs:
                    if match(d):
                        groups.setdefault(fid, []).append(expected_run(fid, d, kwargs, t, ctxid))
                for fid, g in groups.items():
                    expected[fid].append(g)
                n += 1
            k = sched[i] if i < len(sched) else None
            if k is None or d[0] == "adv":
                w.settle()
                fail = compare(w, decs, expected)
                if fail:
                    return fail, calls_of(w), n
            else:
                w.loop.run_steps(k)
        w.settle()
        w.advance(20)
        fail = compare(w, decs, expected)
        calls = calls_of(w)
        if fail is None and cname == "ev_sleep":
            starts = [c for c in calls if c[1] == "start"]
            ends = [c for c in calls if c[1] == "end"]
            # a run sees its own arguments after it slept (runs overlap; they must not share state)
            if sorted((c[3:] for c in starts), key=repr) != sorted((c[3:] for c in ends), key=repr):
                fail = {"kind": "run-state-mixed-up", "expected": [c[3:] for c in starts], "observed": [c[3:] for c in ends]}
            else:
                # pair runs by time: the run that started at t ends at t + 5 and must still see its own arguments
                by_t = {}
                for c in starts:
                    by_t.setdefault(c[2], []).append(c[3:])
                for c in ends:
                    mine = by_t.get(round(c[2] - 5.0, 3), [])
                    if c[3:] not in mine:
                        fail = {"kind": "run-state-mixed-up", "expected": mine, "observed": c[3:]}
                        break
        if fail is None and cname == "ev_sleep":
            if len(ends) != len(starts) or any(round(e[2] - s[2], 3) != 5.0 for s, e in zip(sorted(starts, key=lambda c: c[2]), sorted(ends, key=lambda c: c[2]))):
                fail = {"kind": "sleeping-run-disturbed", "expected": "every run ends 5 s after it started", "observed": calls}
        if fail is None and cname == "ev_emit":
            fail = check_emit(calls, bus_out, sink_calls, ctx_ids)
        if fail is None and w.errors:
            fail = {"kind": "loop-exception", "detail": repr(w.errors[0])[:300]}
        return fail, calls, n
    finally:
        w.close()


def calls_of(w):
    return [tuple(c) for c in w.g()["calls"]]


def compare(w, decs, expected):
    calls = [c for c in calls_of(w) if c[1] == "start"]
    for fid in {d[0] for d in decs}:
        obs = [c for c in calls if c[0] == fid]
        if not EX.match_groups(expected[fid], obs):
            flat = [r for g in expected[fid] for r in g]
            kind = "missing-run" if len(obs) < len(flat) else ("extra-run" if len(obs) > len(flat) else "wrong-run")
            if kind == "wrong-run" and sorted(map(repr, obs)) == sorted(map(repr, flat)):
                whos = {r[9] for r in flat}
                if len(whos) > 1 and all([r for r in obs if r[9] == x] == [r for r in flat if r[9] == x] for x in whos):
                    kind = "cross-decorator-order"
                else:
                    kind = "order"
            return {"kind": kind, "func": fid, "expected": flat, "observed": obs}
    return None


def check_emit(calls, bus_out, sink_calls, ctx_ids):
    """Every emission of a run carries a context whose parent is the triggering event's context."""
    starts = [c for c in calls if c[1] == "start"]
    by_parent = {}
    inv = {v: k for k, v in ctx_ids.items()}
    outs = [b for b in bus_out if b[0] == "out"]
    states = [b for b in bus_out if b[0] == "state"]
    if not (len(outs) == len(states) == len(starts) and len(sink_calls) == 4 * len(starts)):
        return {"kind": "emit-count", "expected": len(starts), "observed": (len(outs), len(states), len(sink_calls))}
    for s, o in zip(starts, outs):
        exp_parent = inv.get(s[10])
        if o[2].parent_id != exp_parent:
            return {"kind": "context-parent", "what": "event.fire", "expected": s[10], "observed": o[2].parent_id}
        if o[1] != {"arg": s[5], "extra": [1, 2]}:
            return {"kind": "event-fire-data", "expected": {"arg": s[5], "extra": [1, 2]}, "observed": o[1]}
        by_parent.setdefault(o[2].id, 0)
        by_parent[o[2].id] += 1
    for s, st in zip(starts, states):
        if st[2].parent_id != inv.get(s[10]):
            return {"kind": "context-parent", "what": "state set", "expected": s[10], "observed": st[2].parent_id}
    for i, s in enumerate(starts):
        for data, ctx in sink_calls[4 * i: 4 * i + 4]:
            if ctx.parent_id != inv.get(s[10]):
                return {"kind": "context-parent", "what": "service call " + "/".join(data), "expected": s[10], "observed": ctx.parent_id}
            if data not in ({"v": s[5]}, {"v2": s[5]}, {"v3": s[5]}, {"v4": s[5]}):
                return {"kind": "service-call-data", "expected": s[5], "observed": data}
    odel = [b for b in bus_out if b[0] == "odel"]
    if len(odel) != 2 * len(starts):
        return {"kind": "emit-count", "expected": 2 * len(starts), "observed": ("odel", len(odel))}
    for i, s in enumerate(starts):
        for kind_, removed, ctx in odel[2 * i: 2 * i + 2]:
            if ctx.parent_id != inv.get(s[10]):
                return {"kind": "context-parent", "what": "state removal" if removed else "state set", "expected": s[10], "observed": ctx.parent_id}
    if len(by_parent) != len(starts):
        return {"kind": "context-not-distinct", "expected": len(starts), "observed": len(by_parent)}
    out3 = [b for b in bus_out if b[0] == "out3"]
    for s, o in zip(starts, out3):
        # a context argument that is not a Context is ordinary event data
        if o[1] != {"context": "notctx", "b": 2} or o[2].parent_id != inv.get(s[10]):
            return {"kind": "event-fire-nonctx-arg", "expected": {"context": "notctx", "b": 2}, "observed": o[1]}
    if len(out3) != len(starts):
        return {"kind": "emit-count", "expected": len(starts), "observed": ("out3", len(out3))}
    out2 = [b for b in bus_out if b[0] == "out2"]
    for s, o in zip(starts, out2):
        if o[1] != {"a": 1} or o[2].id != inv.get(s[10]):
            return {"kind": "event-fire-context-arg", "expected": ({"a": 1}, s[10]), "observed": (o[1], ctx_ids.get(o[2].id))}
    return None


def bounds(tier):
    return {"depth_settled": 4 if tier == "thorough" else 3, "depth_burst": 3 if tier == "thorough" else 2,
            "max_deviations": 2 if tier == "thorough" else 1, "configs": sorted(CONFIGS), "alphabet_sizes": {k: len(v) for k, v in ALPHABET.items()}}


def plan(tier, seed):
    shards = []
    d_set, d_burst, maxdev = (4, 3, 2) if tier == "thorough" else (3, 2, 1)
    n = 8 if tier == "thorough" else 2
    for cname in CONFIGS:
        for legacy in (False, True):
            for k in range(n):
                shards.append((cname, legacy, d_set, 0, k, n))
            shards.append((cname, legacy, d_burst, maxdev, 0, 1))
    return shards


def run_shard(shard):
    cname, legacy, depth, maxdev, k, n = shard
    res = Shard()
    alpha = ALPHABET[CONFIGS[cname][0]]
    scheds = EX.schedules(depth, maxdev)
    for i, seq in enumerate(EX.sequences(range(len(alpha)), depth)):
        if i % n != k:
            continue
        dseq = [alpha[j] for j in seq]
        for sched in scheds:
            if maxdev and any(kk is not None for kk in sched) and all(dseq[p][0] == "adv" for p, kk in enumerate(sched) if kk is not None):
                continue  # a burst gap after a pure time advance is the settled schedule again
            fail, calls, ntr = run_case(cname, legacy, dseq, sched)
            case = {"config": cname, "legacy": legacy, "seq": [list(x) for x in dseq], "sched": list(sched)}
            res.case((cname, tuple(calls)), nontrivial=bool(calls), transitions=len(dseq), config=f"{cname}/{'legacy' if legacy else 'new'}", sample=case)
            if fail:
                mode = "burst" if any(x is not None for x in sched) else "settled"
                sig = f"{cname}|{'legacy' if legacy else 'new'}|{fail['kind']}|{mode}"
                if fail["kind"] == "cross-decorator-order":
                    sig = f"*|{'legacy' if legacy else 'new'}|cross-decorator-order|{mode}"
                res.fail(sig, case, expected=fail.get("expected"),
                         observed=fail.get("observed"), detail=fail)
    return res


def replay(case):
    dseq = [tuple(x) for x in case["seq"]]
    fail, calls, n = run_case(case["config"], case["legacy"], dseq, tuple(case["sched"]))
    return {"ok": fail is None, "failure": fail, "calls": calls}
