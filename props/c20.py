"""C20 — requirements resolution is order-independent and never overrides the host (E3)."""

import itertools
import os
import shutil
import tempfile
import types

from mc.result import Shard

PID = "C20"
LEVEL = "model_checking"
PRELOAD = False
RULE = (
    "(a) merge: every ORDERED sequence of up to N requirement lines from the line pool (unpinned, four pins incl. 1.9 vs "
    "1.10, inline comment, commented line, blank, >=, <=, comma specifier, double ==, malformed version, a second and "
    "third package) written to real requirements.txt files in two distributions over the documented locations (all in "
    "pyscript/requirements.txt; round-robin over top level, apps/a, modules/m, scripts/s) and read back by "
    "process_all_requirements; oracle: per package the highest valid '==' pin, else unpinned, else absent - by "
    "construction identical for every permutation of the same multiset, which is also checked directly; (b) install "
    "decision: every combination of required in {absent, unpinned, 1.0, 2.0} x installed in {none, 1.0, 2.0} x recorded-by-"
    "pyscript in {none, 1.0, 2.0} for one and for two packages x allow_all_imports x two consecutive runs against a model "
    "installer; oracle: nothing installed with the option off, foreign packages never passed to the installer and dropped "
    "from the record, own packages reinstalled only when the pin differs, record == what pyscript installed (unpinned "
    "resolved), second run installs nothing. distinct = distinct (line sequence class, table) / (state, installer call); "
    "non-trivial = the table is non-empty / the installer was called or the record changed"
)
ASSUMPTIONS = [
    "packaging.version.Version decides validity and order of pins",
    "Home Assistant's installer and importlib.metadata are replaced by a model of the installed environment at the seams "
    "the integration imports (async_process_requirements, installed_version)",
]
MAXTASKS = 20

P_LINES = ["p", "p==1.0", "p==1.9", "p==1.10", "p==2.0", "p==1.0 # c", "# p==9", "", "p>=1.0", "p<=3", "p==1.0,<2", "p==1==2",
           "p==notaversion", "  p == 1.5".replace(" == ", "=="), "q", "q==3.0", "r==0.1"]
QUICK_LINES = ["p", "p==1.0", "p==1.10", "p==1.9", "p==1.0 # c", "# p==9", "", "p>=1.0", "p==1.0,<2", "p==1==2", "p==notaversion", "q==3.0"]

ROOTS = ["requirements.txt", "apps/a/requirements.txt", "modules/m/requirements.txt", "scripts/s/requirements.txt"]


def oracle(lines):
    from packaging.version import InvalidVersion, Version

    best = {}
    for raw in lines:
        ln = raw.split("#", 1)[0].strip()
        if not ln:
            continue
        parts = ln.split("==")
        if len(parts) > 2 or "," in ln or ">" in ln or "<" in ln:
            continue
        name = parts[0]
        if len(parts) == 1:
            best.setdefault(name, None)
            continue
        try:
            v = Version(parts[1])
        except InvalidVersion:
            continue
        cur = best.get(name)
        if cur is None or v > cur[0]:
            best[name] = (v, parts[1])
    return {k: ("_unpinned_version" if v is None else str(v[0])) for k, v in best.items()}


def run_merge(lines, dist):
    from custom_components.pyscript import requirements as RQ
    from packaging.version import Version

    base = tempfile.mkdtemp(prefix=f"verif-rq-{os.getpid()}-", dir="/dev/shm" if os.path.isdir("/dev/shm") else None)
    try:
        files = {}
        for i, ln in enumerate(lines):
            rel = ROOTS[0] if dist == "one" else ROOTS[i % len(ROOTS)]
            files.setdefault(rel, []).append(ln)
        for rel, lns in files.items():
            fp = os.path.join(base, rel)
            os.makedirs(os.path.dirname(fp), exist_ok=True)
            with open(fp, "w") as fh:
                fh.write("\n".join(lns) + "\n")
        RQ.installed_version = lambda name: "7.7"
        try:
            table = RQ.process_all_requirements(base, ("", "apps/*", "modules/*", "scripts/**"), "requirements.txt")
        except Exception as exc:  # noqa
            return {"__exception__": type(exc).__name__}
        out = {}
        for pkg, info in table.items():
            v = info["version"]
            try:
                v = str(Version(v)) if v != "_unpinned_version" else v
            except Exception:  # noqa
                v = "INVALID:" + str(v)
            out[pkg] = v
            for src in info["sources"]:
                if not os.path.exists(src):
                    out[pkg] += "|missing-source"
        return out
    finally:
        shutil.rmtree(base, ignore_errors=True)


def seq_class(lines):
    return tuple(sorted(lines))


# ---- (b) install decision ----------------------------------------------------------------------
REQ = [None, "unpinned", "1.0", "2.0"]
INST = [None, "1.0", "2.0"]
RECD = [None, "1.0", "2.0"]
LATEST = "9.9"


def model_decision(req, inst, rec, allow):
    """For one package: returns (installer argument or None, record after, installed after)."""
    if req is None:
        return None, rec, inst
    if not allow:
        return None, rec, inst
    if inst is not None:
        foreign = rec is None or rec != inst
        if req == "unpinned":
            return None, (None if (rec is not None and rec != inst) else rec), inst
        if foreign:
            return None, None if rec is not None else None, inst
        if req != inst:
            return f"=={req}", req, req
        return None, rec, inst
    # not installed: install it
    if req == "unpinned":
        return "", LATEST, LATEST
    return f"=={req}", req, req


def run_install(pkgs, allow, runs=2, installer_fails=False):
    """pkgs: list of (name, req, inst, rec).  Executes install_requirements `runs` times; returns per-run observations."""
    import asyncio

    from custom_components.pyscript import requirements as RQ

    base = tempfile.mkdtemp(prefix=f"verif-rq-{os.getpid()}-", dir="/dev/shm" if os.path.isdir("/dev/shm") else None)
    try:
        lines = []
        env = {}
        record = {}
        for name, req, inst, rec in pkgs:
            if req == "unpinned":
                lines.append(name)
            elif req is not None:
                lines.append(f"{name}=={req}")
            if inst is not None:
                env[name] = inst
            if rec is not None:
                record[name] = rec
        with open(os.path.join(base, "requirements.txt"), "w") as fh:
            fh.write("\n".join(lines) + "\n")
        calls = []

        def fake_installed_version(name):
            if name in env:
                return env[name]
            raise RQ.PackageNotFoundError(name)

        async def fake_process(hass, domain, reqs):
            calls.append(list(reqs))
            if installer_fails:
                from homeassistant.requirements import RequirementsNotFound

                raise RequirementsNotFound(domain, list(reqs))
            for r in reqs:
                if "==" in r:
                    n, v = r.split("==")
                    env[n] = v
                else:
                    env[r] = LATEST

        entry = types.SimpleNamespace(data={"allow_all_imports": allow, "_installed_packages": dict(record)})
        updates = []

        def update_entry(entry=None, data=None):
            updates.append(dict(data))
            entry.data = data

        async def inline(func, *a):
            return func(*a)

        hass = types.SimpleNamespace(async_add_executor_job=inline,
                                     config_entries=types.SimpleNamespace(async_update_entry=update_entry))
        RQ.installed_version = fake_installed_version
        RQ.async_process_requirements = fake_process
        obs = []
        loop = asyncio.new_event_loop()
        try:
            for _ in range(runs):
                calls.clear()
                try:
                    loop.run_until_complete(RQ.install_requirements(hass, entry, base))
                    exc = None
                except Exception as e:  # noqa
                    exc = type(e).__name__
                obs.append({"installer": sorted(x for c in calls for x in c), "record": dict(entry.data.get("_installed_packages", {})),
                            "env": dict(env), "exc": exc})
        finally:
            loop.close()
        return obs
    finally:
        shutil.rmtree(base, ignore_errors=True)


def check_install(pkgs, allow):
    obs = run_install(pkgs, allow)
    # model, run 1
    exp_inst, exp_rec, exp_env = [], {}, {}
    any_req = any(p[1] is not None for p in pkgs)
    for name, req, inst, rec in pkgs:
        arg, rec2, inst2 = model_decision(req, inst, rec, allow)
        if arg is not None:
            exp_inst.append(name + arg)
        if rec2 is not None:
            exp_rec[name] = rec2
        if inst2 is not None:
            exp_env[name] = inst2
    o1, o2 = obs
    if o1["exc"] or o2["exc"]:
        return {"kind": "exception", "observed": (o1["exc"], o2["exc"])}, obs
    if o1["installer"] != sorted(exp_inst):
        return {"kind": "installer-arguments", "expected": sorted(exp_inst), "observed": o1["installer"]}, obs
    if o1["env"] != exp_env:
        return {"kind": "environment", "expected": exp_env, "observed": o1["env"]}, obs
    if o1["record"] != exp_rec:
        return {"kind": "record", "expected": exp_rec, "observed": o1["record"]}, obs
    if o2["installer"]:
        return {"kind": "second-run-installs", "expected": [], "observed": o2["installer"]}, obs
    if o2["record"] != o1["record"] or o2["env"] != o1["env"]:
        return {"kind": "second-run-changes-state", "expected": (o1["record"], o1["env"]), "observed": (o2["record"], o2["env"])}, obs
    return None, obs


def check_install_failure(pkgs, allow):
    """The installer refuses the batch: nothing was installed, so the installed-by-pyscript record may not gain or change any entry,
    and a second run asks for the same installation again."""
    obs = run_install(pkgs, allow, installer_fails=True)
    rec0 = {p[0]: p[3] for p in pkgs if p[3] is not None}
    env0 = {p[0]: p[2] for p in pkgs if p[2] is not None}
    o1, o2 = obs
    if o1["env"] != env0:
        return {"kind": "failed-install-changed-environment", "expected": env0, "observed": o1["env"]}, obs
    for n, v in o1["record"].items():
        if rec0.get(n) != v:
            return {"kind": "failed-install-recorded", "expected": rec0, "observed": o1["record"]}, obs
    if o1["installer"] and o2["installer"] != o1["installer"]:
        return {"kind": "failed-install-not-retried", "expected": o1["installer"], "observed": o2["installer"]}, obs
    return None, obs


def check_record_survives_yaml_import():
    """The installed-by-pyscript record lives in the config entry; a reload (which re-imports the YAML configuration, changed or
    not) must keep it, for an entry that was created from YAML."""
    from mc.world import World

    out = []
    for change in ("same", "allow_all_imports", "apps", "hass_is_global"):
        w = World({"hello.py": "x = 1\n"})
        try:
            entry = w.hass.config_entries.async_entries("pyscript")[0]
            data = dict(entry.data)
            data["_installed_packages"] = {"p": "1.0", "q": "2.0"}
            w.hass.config_entries.async_update_entry(entry, data=data)
            w.settle()
            if change == "allow_all_imports":
                w.conf["allow_all_imports"] = True
            elif change == "apps":
                w.conf["apps"] = {"a1": {"k": 1}}
            elif change == "hass_is_global":
                w.conf["hass_is_global"] = True
            w.reload()
            w.settle()
            entry = w.hass.config_entries.async_entries("pyscript")[0]
            got = entry.data.get("_installed_packages")
            out.append((change, entry.source, got))
            if got != {"p": "1.0", "q": "2.0"}:
                return {"kind": "record-lost-on-yaml-import", "expected": {"p": "1.0", "q": "2.0"}, "observed": (change, entry.source, got)}, out
        finally:
            w.close()
    return None, out


# ---- plan --------------------------------------------------------------------------------------
def bounds(tier):
    return {"merge_lines": len(P_LINES if tier == "thorough" else QUICK_LINES), "max_sequence_length": 4 if tier == "thorough" else 3,
            "distributions": ["one", "round-robin"], "install_packages": 2}


def plan(tier, seed):
    n = 64 if tier == "thorough" else 16
    return [("merge", tier, k, n) for k in range(n)] + [("install", tier, k, 4) for k in range(4)] + [("entry", tier, 0, 1)]


def run_shard(shard):
    res = Shard()
    kind, tier, k, n = shard
    if kind == "merge":
        pool = P_LINES if tier == "thorough" else QUICK_LINES
        maxlen = 4 if tier == "thorough" else 3
        i = -1
        for ln in range(0, maxlen + 1):
            for seq in itertools.product(pool, repeat=ln):
                i += 1
                if i % n != k:
                    continue
                exp = oracle(seq)
                for dist in ("one", "rr"):
                    got = run_merge(seq, dist)
                    case = {"engine": "merge", "lines": list(seq), "dist": dist}
                    res.case((seq_class(seq), tuple(sorted(got.items()))), nontrivial=bool(got), transitions=len(seq), config="merge/" + dist, sample=case)
                    if got != exp:
                        feats = sorted({"malformed" if "notaversion" in s else "double==" if s.count("==") > 1 else "spec" if any(c in s for c in "<>,") else "plain" for s in seq if s.strip() and not s.startswith("#")})
                        res.fail("merge|" + "+".join(feats), case, expected=exp, observed=got)
    elif kind == "entry":
        fail, out = check_record_survives_yaml_import()
        case = {"engine": "entry"}
        res.case(("entry", repr(out)), nontrivial=True, transitions=4, config="config-entry", sample=case)
        if fail:
            res.fail(f"entry|{fail['kind']}", case, expected=fail.get("expected"), observed=fail.get("observed"))
    else:
        i = -1
        one = [[("p", r, i_, c)] for r, i_, c in itertools.product(REQ, INST, RECD)]
        two = [[("p", r1, i1, c1), ("q", r2, i2, c2)] for (r1, i1, c1), (r2, i2, c2) in
               itertools.product(list(itertools.product(REQ[1:], INST, RECD)), repeat=2)]
        for pkgs in one + two:
            for allow in (False, True):
                i += 1
                if i % n != k:
                    continue
                fail, obs = check_install(pkgs, allow)
                case = {"engine": "install", "pkgs": [list(p) for p in pkgs], "allow": allow}
                res.case((tuple(map(tuple, pkgs)), allow, repr(obs)), nontrivial=bool(obs[0]["installer"]) or any(p[3] is not None for p in pkgs),
                         transitions=2, config="install", sample=case)
                if fail:
                    res.fail(f"install|{fail['kind']}", case, expected=fail.get("expected"), observed=fail.get("observed"), detail=fail)
                if allow:
                    fail, obs = check_install_failure(pkgs, allow)
                    case = {"engine": "install-fails", "pkgs": [list(p) for p in pkgs], "allow": allow}
                    res.case(("fails", tuple(map(tuple, pkgs)), repr(obs)), nontrivial=bool(obs[0]["installer"]), transitions=2, config="install-fails", sample=case)
                    if fail:
                        res.fail(f"install|{fail['kind']}", case, expected=fail.get("expected"), observed=fail.get("observed"), detail=fail)
    return res


def replay(case):
    if case["engine"] == "merge":
        exp = oracle(case["lines"])
        got = run_merge(tuple(case["lines"]), case["dist"])
        return {"ok": got == exp, "expected": exp, "observed": got}
    if case["engine"] == "entry":
        fail, out = check_record_survives_yaml_import()
        return {"ok": fail is None, "failure": fail, "observed": repr(out)}
    if case["engine"] == "install-fails":
        fail, obs = check_install_failure([tuple(p) for p in case["pkgs"]], case["allow"])
        return {"ok": fail is None, "failure": fail, "observations": obs}
    fail, obs = check_install([tuple(p) for p in case["pkgs"]], case["allow"])
    return {"ok": fail is None, "failure": fail, "observations": obs}
