"""C14 — every run is an independent task whose exit always cleans up (E4 + E1)."""

import itertools
import os

from mc.result import Shard

PID = "C14"
LEVEL = "model_checking"
RULE = (
    "scenario = a victim task T started by {task.create, service call, event-trigger occurrence} that registers a list of "
    "done-callbacks on itself (every ordered selection of up to 3 registrations from {pyscript cbA(1, k=2), pyscript cbB(), "
    "cbA(3) again (= replace), native function, raising callback} with an optional remove_done_callback), passes G gates "
    "and ends by {return value, raise, task.cancel() of itself, task.cancel from another task, losing a task.unique name, "
    "task.executor returning / raising, unload of the integration}; fault-point enumeration: the external cancel / unique "
    "take-over / unload is injected at EVERY suspension point of T (before each gate, during its sleep, inside "
    "task.wait_until, inside task.wait), while one or two bystander runs of the other kinds are in flight and a waiter "
    "task sits in task.wait on T. Oracle: bystanders' markers and end times are exactly those of the fault-free run "
    "(independence); every registered, not removed callback ran exactly once with its arguments after T ended (a raising "
    "callback does not stop the others); task.wait returns T as done and result()/cancelled()/exception reflect the "
    "outcome; Function.our_tasks / task2cb / task2context / unique tables hold no entry of an ended task; task.executor "
    "ran off the event-loop thread and returned or raised faithfully; both subsystems. distinct = distinct (scenario "
    "class, outcome); non-trivial = T did not simply return"
)
ASSUMPTIONS = [
    "done-callbacks may run in any order (the statement fixes only 'each exactly once')",
    "exceptions raised by the victim's body are logged and the task result is None (documented behaviour of task.create)",
]
MAXTASKS = 40

SRC = '''
marks = []
TASKS = {}

def cbA(*a, **k):
    marks.append(("cb", "A", list(a), sorted(k.items())))

def cbB(*a, **k):
    marks.append(("cb", "B", list(a), sorted(k.items())))

def cbRaise(*a, **k):
    marks.append(("cb", "R", list(a), sorted(k.items())))
    raise ValueError("callback failed")

def register(regs):
    me = task.current_task()
    for r in regs:
        if r == "A1":
            task.add_done_callback(me, cbA, 1, k=2)
        elif r == "B":
            task.add_done_callback(me, cbB)
        elif r == "A3":
            task.add_done_callback(me, cbA, 3)
        elif r == "N":
            task.add_done_callback(me, NATIVE, 5, z=6)
        elif r == "R":
            task.add_done_callback(me, cbRaise)
        elif r == "rmA":
            task.remove_done_callback(me, cbA)
        elif r == "rmB":
            task.remove_done_callback(me, cbB)

def victim(regs, body):
    TASKS["T"] = task.current_task()
    marks.append(("T", "start"))
    task.unique("vname")
    register(regs)
    for n, op in enumerate(body):
        gate("T")
        if op == "sleep":
            task.sleep(5)
        elif op == "wait_until":
            task.wait_until(event_trigger="never_fired", timeout=5)
        elif op == "wait":
            task.wait({TASKS["B0"]})
        elif op == "exec_ok":
            marks.append(("T", "exec", task.executor(NATIVE_WORK, 2, y=3)))
        elif op == "exec_raise":
            try:
                task.executor(NATIVE_BOOM, 1)
            except Exception as e:
                marks.append(("T", "exec_exc", type(e).__name__))
            try:
                task.executor(NATIVE_BOOM, 2)
            except Exception as e:
                marks.append(("T", "exec_exc2", type(e).__name__, str(e)))
        elif op == "raise":
            raise KeyError("victim failed")
        elif op == "cancel_self":
            task.cancel()
        marks.append(("T", n, op))
    marks.append(("T", "end"))
    return "T-result"

def bystander(i, body):
    TASKS[i] = task.current_task()
    marks.append((i, "start", NOW()))
    for n, op in enumerate(body):
        if op == "sleep":
            task.sleep(5)
        elif op == "gate":
            gate(i)
        marks.append((i, n, op, NOW()))
    marks.append((i, "end", NOW()))
    return i

@service
def start_victim(regs=None, body=None):
    victim(regs, body)

@event_trigger("ev_victim")
def trig_victim(regs=None, body=None, **kw):
    victim(regs, body)

@service
def create_victim(regs=None, body=None):
    t = task.create(victim, regs, body)
    TASKS["creator_saw"] = t

@service
def start_by(i=None, body=None):
    bystander(i, body)

@event_trigger("ev_by")
def trig_by(i=None, body=None, **kw):
    bystander(i, body)

@service
def waiter():
    TASKS["W"] = task.current_task()
    done, pending = task.wait({TASKS["T"]})
    t = TASKS["T"]
    res = None
    exc = None
    if t.cancelled():
        res = "cancelled"
    else:
        exc = t.exception()
        if exc is None:
            res = t.result()
    marks.append(("W", len(done), len(pending), res, type(exc).__name__ if exc else None))

@service
def kill_victim():
    task.cancel(TASKS["T"])

@service
def steal_name():
    task.unique("vname")
    marks.append(("S", "stole"))
'''

REG_POOL = ["A1", "B", "A3", "N", "R"]
BODIES = [(), ("sleep",), ("wait_until",), ("wait",), ("exec_ok",), ("exec_raise",)]
ENDS = ["return", "raise", "cancel_self"]
FAULTS = [None, "kill", "steal", "unload"]
KINDS = ["create", "service", "trigger"]


def reg_lists(tier):
    out = [()]
    n = 3
    for k in range(1, n + 1):
        out += list(itertools.permutations(REG_POOL, k)) if k < 3 else [p for p in itertools.permutations(REG_POOL, 3) if "R" in p or ("A1" in p and "A3" in p)]
    extra = [("A1", "B", "rmA"), ("A1", "rmA", "A3"), ("B", "rmB"), ("A1", "A3", "rmA"), ("R", "B", "rmB")]
    return out + extra


def expected_callbacks(regs):
    cur = {}
    for r in regs:
        if r == "A1":
            cur["A"] = ("cb", "A", [1], [("k", 2)])
        elif r == "A3":
            cur["A"] = ("cb", "A", [3], [])
        elif r == "B":
            cur["B"] = ("cb", "B", [], [])
        elif r == "N":
            cur["N"] = ("cb", "N", [5], [("z", 6)])
        elif r == "R":
            cur["R"] = ("cb", "R", [], [])
        elif r == "rmA":
            cur.pop("A", None)
        elif r == "rmB":
            cur.pop("B", None)
    return sorted(map(repr, cur.values()))


def scenarios(tier):
    """(kind, regs, body, end, fault, fault_point)"""
    regsets = reg_lists(tier)
    for kind in KINDS:
        # callbacks x end modes, one gate, no fault
        for regs in regsets:
            for end in ENDS:
                yield (kind, regs, ("sleep",), end, None, None)
        # fault enumeration: every body x every fault x every suspension point
        bodies = list(BODIES)
        if tier == "thorough":
            bodies += [(a, b) for a in ("sleep", "wait_until", "wait", "exec_ok") for b in ("sleep", "wait_until", "exec_raise")]
        for body in bodies:
            for end in (ENDS if tier == "thorough" else ENDS[:1]):
                for fault in FAULTS[1:]:
                    npoints = len(body) + 1 + (1 if body else 0)
                    for fp in range(npoints + 1):
                        for regs in [("A1", "B"), ("N", "R", "B")]:
                            yield (kind, regs, body, end, fault, fp)


def run_scenario(sc, legacy):
    import threading

    from mc.world import World

    kind, regs, body, end, fault, fp = sc
    full_body = list(body) + ({"return": [], "raise": ["raise"], "cancel_self": ["cancel_self"]}[end])
    w = World({"hello.py": SRC}, legacy=legacy, thread_executor=bool(os.environ.get("C14_THREADS", "1") == "1"))
    try:
        g = w.g()
        marks = g["marks"]
        t0 = w.elapsed()
        gates = {}
        loop_thread = threading.get_ident()
        exec_threads = []

        async def gate(i):
            fut = w.loop.create_future()
            gates.setdefault(i, []).append(fut)
            await fut

        def native(*a, **k):
            marks.append(("cb", "N", list(a), sorted(k.items())))

        def native_work(x, y=0):
            exec_threads.append(threading.get_ident())
            return x * 10 + y

        def native_boom(x):
            exec_threads.append(threading.get_ident())
            if x == 2:
                raise TypeError("boom-type-error")  # an error of the function itself, not "not callable"
            raise OSError("boom")

        g.update({"gate": gate, "NATIVE": native, "NATIVE_WORK": native_work, "NATIVE_BOOM": native_boom,
                  "NOW": lambda: round(w.elapsed() - t0, 3)})
        # bystanders first: B0 (service, gated then sleeping) and B1 (trigger, sleeping)
        w.start_service("pyscript", "start_by", {"i": "B0", "body": ["gate", "sleep"]})
        w.fire("ev_by", {"i": "B1", "body": ["sleep", "sleep"]})
        w.settle()
        data = {"regs": list(regs), "body": full_body}
        if kind == "service":
            w.start_service("pyscript", "start_victim", data)
        elif kind == "trigger":
            w.fire("ev_victim", data)
        else:
            w.start_service("pyscript", "create_victim", data)
        w.settle()
        w.start_service("pyscript", "waiter", {})
        w.settle()

        def release(i):
            q = gates.get(i) or []
            while q:
                f = q.pop(0)
                if not f.done():
                    f.set_result(None)
                    return True
            return False

        def inject():
            if fault == "kill":
                w.start_service("pyscript", "kill_victim", {})
            elif fault == "steal":
                w.start_service("pyscript", "steal_name", {})
            elif fault == "unload":
                entry = w.hass.config_entries.async_entries("pyscript")[0]
                w.loop.create_task(w.hass.config_entries.async_unload(entry.entry_id))
            w.settle()

        # suspension points of T: gate before op 0 (point 0); after release each op may suspend (sleep etc.);
        # point k = inject after k progress steps (a progress step = release a gate, or advance 2.5 s into a sleep)
        point = 0
        injected = False
        alive_at_injection = False
        steps = 0
        released_b0 = False
        while steps < 40:
            steps += 1
            if fault and not injected and point == fp:
                vt = g["TASKS"].get("T")
                alive_at_injection = vt is not None and not vt.done()
                inject()
                injected = True
            t = g["TASKS"].get("T")
            if t is None or t.done():
                break
            if release("T"):
                w.settle()
                point += 1
                continue
            if not released_b0:
                released_b0 = True
                release("B0")
                w.settle()
                point += 1
                continue
            w.advance(2.5)
            point += 1
        if not released_b0:
            release("B0")
            w.settle()
        w.advance(30)
        w.collect()
        return observe(w, sc, g, marks, exec_threads, loop_thread, fault, injected, alive_at_injection)
    finally:
        w.close()


def observe(w, sc, g, marks, exec_threads, loop_thread, fault, injected, alive_at_injection=False):
    from custom_components.pyscript.function import Function

    kind, regs, body, end, fault, fp = sc
    marks = [tuple(m) if not isinstance(m, tuple) else m for m in marks]
    t = g["TASKS"].get("T")
    out = {"marks": marks}
    if t is None:
        return {"kind": "victim-never-started"}, out
    if not t.done():
        return {"kind": "victim-not-ended", "observed": [m for m in marks if m[0] == "T"]}, out
    tm = [m for m in marks if m[0] == "T"]
    # the victim was still running when the kill / take-over / unload was injected: it ends cancelled, whatever it would have done
    killed = injected and ("T", "end") not in tm and (end == "return" or (alive_at_injection and end == "raise"))
    # 1. callbacks: each registered, not removed callback exactly once, after T ended
    cbs = sorted(repr(("cb", m[1], m[2], m[3])) for m in marks if m[0] == "cb")
    exp_cbs = expected_callbacks(regs)
    if cbs != exp_cbs:
        return {"kind": "done-callbacks", "expected": exp_cbs, "observed": cbs}, out
    # 2. outcome seen by the waiter
    ws = [m for m in marks if m[0] == "W"]
    if fault != "unload":
        if len(ws) != 1:
            return {"kind": "waiter-did-not-return", "observed": ws}, out
        _, ndone, npend, res, exc = ws[0]
        if (ndone, npend) != (1, 0):
            return {"kind": "task.wait-sets", "observed": ws[0]}, out
        if killed or end == "cancel_self":
            want = "cancelled"
        elif end == "raise":
            want = None
        else:
            want = "T-result"
        if kind == "service" and want == "T-result":
            want = None  # the service wrapper's task returns what the handler returns: victim's value is not propagated ... unless supports_response
        if kind == "trigger" and want == "T-result":
            want = None
        if res != want and not (kind in ("service", "trigger") and res in (None, "T-result") and want in (None,)):
            return {"kind": "task-result", "expected": want, "observed": (res, exc)}, out
    # 3. independence: bystanders ran to completion at their own pace
    if fault != "unload":
        for b in ("B0", "B1"):
            bm = [m for m in marks if m[0] == b]
            if not bm or bm[-1][1] != "end":
                return {"kind": "bystander-disturbed", "task": b, "observed": bm}, out
        b1 = [m for m in marks if m[0] == "B1"]
        if [round(m[-1], 1) for m in b1] != [0.0, 5.0, 10.0, 10.0]:
            return {"kind": "bystander-delayed", "task": "B1", "observed": b1}, out
    # 4. registries hold nothing of ended tasks
    stale = []
    for name, table in (("our_tasks", Function.our_tasks), ("task2cb", Function.task2cb), ("task2context", Function.task2context),
                        ("unique_task2name", Function.unique_task2name)):
        for tk in list(table):
            if tk.done():
                stale.append(name)
    for nm, tk in Function.unique_name2task.items():
        if tk.done():
            stale.append("unique_name2task:" + nm)
    if stale:
        return {"kind": "stale-registry", "observed": sorted(set(stale))}, out
    # 5. executor ran off the loop thread and was faithful
    if "exec_ok" in body and not killed:
        if ("T", "exec", 23) not in marks and ("T", "end") in tm:
            return {"kind": "executor-result", "observed": tm}, out
    if "exec_raise" in body and not killed:
        if ("T", "exec_exc", "OSError") not in marks and ("T", "end") in tm:
            return {"kind": "executor-exception", "observed": tm}, out
        if ("T", "exec_exc2", "TypeError", "boom-type-error") not in marks and ("T", "end") in tm:
            return {"kind": "executor-exception-altered", "expected": ("TypeError", "boom-type-error"), "observed": [m for m in marks if m[1] == "exec_exc2"]}, out
    if exec_threads and any(x == loop_thread for x in exec_threads):
        return {"kind": "executor-on-loop-thread"}, out
    if w.errors:
        return {"kind": "loop-exception", "observed": repr(w.errors[0])[:300]}, out
    return None, out


def bounds(tier):
    return {"scenarios": sum(1 for _ in scenarios(tier)), "kinds": KINDS, "faults": FAULTS[1:], "bodies": [list(b) for b in BODIES]}


NESTED_SRC = '''
marks = []
TASKS = {}

def cb_outer(tag):
    marks.append(("cb", tag))

@service
def inner_svc(mode=None):
    me = task.current_task()
    TASKS["inner"] = me
    marks.append(("inner", "start", me is TASKS.get("outer")))
    task.unique("iname")
    if mode == "raise":
        raise KeyError("inner failed")
    task.sleep(1)
    marks.append(("inner", "end"))

@CALLER
def outer(mode=None, form=None, **kw):
    me = task.current_task()
    TASKS["outer"] = me
    task.unique("oname")
    task.add_done_callback(me, cb_outer, "O")
    if form == "call":
        service.call("pyscript", "inner_svc", mode=mode, blocking=True)
    else:
        pyscript.inner_svc(mode=mode, blocking=True)
    marks.append(("outer", "after", task.current_task() is me, task.name2id("oname") is me))
    task.sleep(1)
    marks.append(("outer", "end", task.current_task() is me))
'''


def run_nested(caller, form, mode, legacy):
    """A pyscript task calls a pyscript @service and waits for it: the service still runs as its own task, and the caller
    keeps its identity, its unique name and its done callbacks until it ends itself."""
    from custom_components.pyscript.function import Function
    from mc.world import World

    deco = "service" if caller == "service" else "event_trigger('ev_outer')"
    w = World({"hello.py": NESTED_SRC.replace("CALLER", deco)}, legacy=legacy, capture_logs=True)
    try:
        data = {"mode": mode, "form": form}
        if caller == "service":
            w.start_service("pyscript", "outer", data)
        else:
            w.fire("ev_outer", data)
        w.settle()
        w.advance(5)
        w.collect()
        marks = [tuple(m) for m in w.g()["marks"]]
        want = [("inner", "start", False)] + ([("inner", "end")] if mode == "ok" else []) + [
            ("outer", "after", True, True), ("outer", "end", True), ("cb", "O")]
        if marks != want:
            return {"kind": "nested-service-call", "expected": want, "observed": marks}, marks
        stale = [name for name, table in (("our_tasks", Function.our_tasks), ("task2cb", Function.task2cb), ("task2context", Function.task2context),
                                         ("unique_task2name", Function.unique_task2name)) for tk in list(table) if tk.done()]
        if stale or Function.unique_name2task:
            return {"kind": "stale-registry-entry", "observed": (stale, sorted(Function.unique_name2task))}, marks
        if w.errors:
            return {"kind": "loop-exception", "observed": repr(w.errors[0])[:200]}, marks
        return None, marks
    finally:
        w.close()


WAIT0_SRC = '''
marks = []
TASKS = {}
def slow():
    task.sleep(5)
    return "slow-result"
@service
def poller():
    t = task.create(slow)
    TASKS["slow"] = t
    for to in (0, 0.0):
        done, pending = task.wait({t}, timeout=to)
        marks.append(("poll", NOW(), len(done), len(pending)))
    done, pending = task.wait({t}, timeout=2)
    marks.append(("wait2", NOW(), len(done), len(pending)))
    done, pending = task.wait({t})
    marks.append(("wait", NOW(), len(done), len(pending), t.result()))
    done, pending = task.wait({t}, timeout=0)
    marks.append(("poll-done", NOW(), len(done), len(pending)))
'''


def run_wait0(legacy):
    """task.wait(..., timeout=0) polls: it returns at once with the unfinished tasks pending."""
    from mc.world import World

    w = World({"hello.py": WAIT0_SRC}, legacy=legacy)
    try:
        t0 = w.elapsed()
        w.g()["NOW"] = lambda: round(w.elapsed() - t0, 3)
        w.start_service("pyscript", "poller", {})
        w.settle()
        w.advance(10)
        marks = [tuple(m) for m in w.g()["marks"]]
        want = [("poll", 0.0, 0, 1), ("poll", 0.0, 0, 1), ("wait2", 2.0, 0, 1), ("wait", 5.0, 1, 0, "slow-result"), ("poll-done", 5.0, 1, 0)]
        if marks != want:
            return {"kind": "task.wait-timeout", "expected": want, "observed": marks}, marks
        if w.errors:
            return {"kind": "loop-exception", "observed": repr(w.errors[0])[:200]}, marks
        return None, marks
    finally:
        w.close()


NESTED = [(c, f, m) for c in ("service", "trigger") for f in ("call", "direct") for m in ("ok", "raise")]


def plan(tier, seed):
    n = 64 if tier == "thorough" else 32
    return [(tier, legacy, k, n) for legacy in (False, True) for k in range(n)] + [("nested", legacy) for legacy in (False, True)]


def run_shard(shard):
    res = Shard()
    if shard[0] == "nested":
        legacy = shard[1]
        for c, f, m in NESTED:
            fail, marks = run_nested(c, f, m, legacy)
            case = {"nested": [c, f, m], "legacy": legacy}
            res.case(("nested", c, f, m, tuple(marks)), nontrivial=True, transitions=4, config=("legacy" if legacy else "new") + "/nested", sample=case)
            if fail:
                res.fail(f"{'legacy' if legacy else 'new'}|nested|{fail['kind']}|{m}", case, expected=fail.get("expected"), observed=fail.get("observed"))
        fail, marks = run_wait0(legacy)
        case = {"wait0": True, "legacy": legacy}
        res.case(("wait0", tuple(marks)), nontrivial=True, transitions=5, config=("legacy" if legacy else "new") + "/wait0", sample=case)
        if fail:
            res.fail(f"{'legacy' if legacy else 'new'}|wait0|{fail['kind']}", case, expected=fail.get("expected"), observed=fail.get("observed"))
        return res
    tier, legacy, k, n = shard
    for i, sc in enumerate(scenarios(tier)):
        if i % n != k:
            continue
        fail, out = run_scenario(sc, legacy)
        case = {"scenario": [sc[0], list(sc[1]), list(sc[2]), sc[3], sc[4], sc[5]], "legacy": legacy}
        tmarks = tuple(repr(m) for m in out.get("marks", []) if m[0] in ("T", "cb", "W"))
        res.case((sc[0], sc[3], sc[4], tmarks), nontrivial=sc[3] != "return" or sc[4] is not None, transitions=len(sc[2]) + 3,
                 config=("legacy" if legacy else "new") + "/" + sc[0], sample=case)
        if fail:
            cls = "R" if "R" in sc[1] else "-"
            res.fail(f"{'legacy' if legacy else 'new'}|{sc[0]}|{fail['kind']}|raising_cb={cls}|fault={sc[4]}", case,
                     expected=fail.get("expected"), observed=fail.get("observed"), detail=fail)
    return res


def replay(case):
    if "wait0" in case:
        fail, marks = run_wait0(case["legacy"])
        return {"ok": fail is None, "failure": fail, "marks": [repr(m) for m in marks]}
    if "nested" in case:
        fail, marks = run_nested(*case["nested"], case["legacy"])
        return {"ok": fail is None, "failure": fail, "marks": [repr(m) for m in marks]}
    s = case["scenario"]
    sc = (s[0], tuple(s[1]), tuple(s[2]), s[3], s[4], s[5])
    fail, out = run_scenario(sc, case["legacy"])
    return {"ok": fail is None, "failure": fail, "marks": [repr(m) for m in out.get("marks", [])]}
