"""C03 — functions, scoping, closures and classes behave like Python (E3, differential against CPython)."""

import re

from gen import funcs as FN
from mc import progdiff as PD
from mc.result import Shard

PID = "C03"
LEVEL = "model_checking"
RULE = (
    "(a) every signature with up to N parameters of each kind (positional-only, normal, trailing-default masks, "
    "*args, keyword-only x default masks, **kw) x every call shape (0..P positionals, <=K keywords drawn from every "
    "parameter name, an unknown name and a reserved trigger keyword, with/without *seq and **map); (b) every "
    "assignment of one of the scoping roles of gen/funcs.py to the name x at each level of a nest of up to 3 "
    "functions x module-level x defined or not x inner function called immediately or after the outer body "
    "finished; (c) closure/recursion/decorator/class/lambda templates. Executed by AstEval and CPython; observation "
    "= (globals, tracer trail, exception type with UnboundLocalError folded into NameError). The one intended "
    "deviation is modelled: unexpected keywords named like trigger keywords are dropped when the function has no "
    "**kw. non-trivial = the trail is non-empty or an exception was raised"
)
ASSUMPTIONS = [
    "CPython 3.12 is the reference; only programs its compiler accepts are compared",
    "NameError and UnboundLocalError are one family (as the statement allows)",
    "dunder methods other than __init__, metaclasses, generators and async semantics are outside the generated subset",
]
MAXTASKS = 8
NSIG = 16


def bounds(tier):
    return ({"sig_params_per_kind": 2, "positionals": 4, "keywords": 3, "scope_depth": 3, "roles": len(FN.ROLE_NAMES), "scope_depth4_roles": len(FN.QUICK_ROLES)}
            if tier == "thorough" else
            {"sig_params_per_kind": 1, "positionals": 3, "keywords": 2, "scope_depth": 3, "roles": len(FN.QUICK_ROLES),
             "scope_depth2_roles": len(FN.ROLE_NAMES), "scope_depth4_roles": len(FN.DEEP_ROLES)})


def plan(tier, seed):
    shards = [("misc",)]
    if tier == "quick":
        shards += [("sig", 1, 3, 2, k, NSIG) for k in range(NSIG)]
        shards += [("scope", 2, "full", 0, 1), ("scope", 1, "full", 0, 1)]
        shards += [("scope", 3, "quick", k, 16) for k in range(16)]
        shards += [("scope", 4, "deep", k, 16) for k in range(16)]
    else:
        shards += [("sig", 2, 4, 3, k, 64) for k in range(64)]
        shards += [("scope", 2, "full", 0, 1), ("scope", 1, "full", 0, 1)]
        shards += [("scope", 3, "full", k, 32) for k in range(32)]
        shards += [("scope", 4, "quick", k, 64) for k in range(64)]
    return shards


_RES = re.compile(r",? ?value='RV'")


def expected_for(src, has_reserved, has_kw):
    py = PD.run_py(src, family=True)
    if has_reserved and not has_kw and py[2] is not None and py[2][0] == "TypeError":
        # intended deviation: the reserved keyword is silently dropped
        stripped = _RES.sub("", src).replace("f(, ", "f(")
        py2 = PD.run_py(stripped, family=True)
        return py2
    return py


def check_one(res, fam, src, has_reserved=False, has_kw=False):
    if not PD.compiles(src):
        return
    py = expected_for(src, has_reserved, has_kw)
    ps = PD.run_ps(src, family=True)
    res.case(ps, nontrivial=bool(ps[1]) or ps[2] is not None, transitions=src.count("\n") + 1, config=fam,
             sample={"family": fam, "src": src})
    if ps != py:
        res.fail(f"{fam}|{PD.diff_kind(ps, py)}", {"family": fam, "src": src, "res": has_reserved, "kw": has_kw},
                 expected=py, observed=ps, detail=PD.trail_diff(ps[1], py[1]))


def run_shard(shard):
    PD.install_stub_hass()
    res = Shard()
    kind = shard[0]
    if kind == "misc":
        for src in FN.misc_programs():
            check_one(res, "misc", src)
        for src in FN.placed_closure_programs():
            check_one(res, "placed", src)
        for src in FN.dup_keyword_programs():
            check_one(res, "dupkw", src)
    elif kind == "sig":
        _, maxn, maxpos, maxkw, k, n = shard
        for i, (params, names, ret) in enumerate(FN.signatures(maxn)):
            if i % n != k:
                continue
            for call, has_res in FN.call_shapes(names, maxpos, maxkw):
                src = f"def f({params}):\n    return {ret}\nr = f({call})"
                check_one(res, "sig", src, has_res, "**kw" in params)
    else:
        _, depth, rl, k, n = shard
        roles = FN.ROLE_NAMES if rl == "full" else (FN.DEEP_ROLES if rl == "deep" else FN.QUICK_ROLES)
        for i, src in enumerate(FN.scope_programs(depth, roles)):
            if i % n == k:
                check_one(res, f"scope{depth}", src)
    return res


def replay(case):
    PD.install_stub_hass()
    src = case["src"]
    py = expected_for(src, case.get("res", False), case.get("kw", False))
    ps = PD.run_ps(src, family=True)
    return {"ok": ps == py, "src": src, "python": py, "pyscript": ps, "kind": PD.diff_kind(ps, py)}
