"""C09 — triggers live exactly as long as their function and leave nothing behind (E1, both subsystems)."""

import itertools

from mc import explore as EX
from mc.result import Shard

PID = "C09"
LEVEL = "model_checking"
RULE = (
    "session engine: every sequence up to the tier's depth over {define/redefine f, del f, alias g = f, del g, "
    "lst.append(closure), lst.pop(), lst.clear(), d['k'] = closure (overwrite), occurrence burst (state changes of "
    "every watched entity, event, MQTT message, webhook, service call, 6 s of virtual time)} executed as interactive "
    "cells in a Jupyter-style global context and finally an unload of the integration with the session still open, for each trigger mix (state over one name; state over value + .old + "
    "second entity under entity-name pairs chosen so that all iteration orders of the watched-name set occur; "
    "attribute + wildcard; time period; event; mqtt; webhook; @service; startup+shutdown; combination) and both "
    "subsystems; file engine: every sequence over {edit+reload, delete+reload, #-rename+reload, restore+reload, "
    "reload(name), occurrence, unload} on a script file, once as it is and once with definitions that are gone again before "
    "the file has finished loading (a first f replaced by the real one, a function deleted right away); late engine: every "
    "sequence over {edit+reload, delete+reload, restore, reload(name), event 'mk', occurrence} on a file whose load starts a task "
    "that waits for 'mk' and then defines a trigger closure in its own context - the closure is active iff that context is the "
    "loaded one at that moment and only until it is unloaded. Oracle: a reference-count model of live function generations "
    "gives, after every step (gc.collect + quiescence), the exact multiset of runs (none by a dead generation, "
    "startup/shutdown once per definition/removal), and the resource census (bus listeners, services, webhooks, MQTT "
    "subscriptions, pyscript subscription tables, tasks, timers) must equal the census of a fresh world in which "
    "exactly the live generations were defined directly (differential oracle) and the empty-script baseline when "
    "nothing is live / after unload. distinct = distinct (mix, live-set, census); non-trivial = at least one run or "
    "a census change"
)
ASSUMPTIONS = [
    "observation happens after gc.collect() and loop quiescence: only eventual deactivation is required",
    "the census of a directly built live set is the reference for the same live set reached through any history",
    "the integration's own three services and HA's internal listeners are part of the baseline on both sides",
    "a definition that is replaced or deleted before its file has finished loading never became active: whether it still gets its 'startup' / "
    "'shutdown' entries is not decided here (legacy runs 'shutdown' for it), every other run or resource of it is a violation",
]
MAXTASKS = 30

BODY = '''    tt = kw.get("trigger_time")
    runs.append((GENV, kw.get("trigger_type"), tt if isinstance(tt, str) else None))
'''


def name_pairs():
    """Entity-name pairs (X, Y) such that the iteration orders of {X, X.old, Y} cover all permutations of roles."""
    cands = [f"pyscript.{c}" for c in "abcdefghijklmnopqrstuvwxyz"]
    need = set(itertools.permutations(("X", "O", "Y")))
    got, picks = set(), []
    for x, y in itertools.permutations(cands[:12], 2):
        order = tuple({x: "X", x + ".old": "O", y: "Y"}[n] for n in {x, x + ".old", y})
        if order not in got:
            got.add(order)
            picks.append((x, y, order))
        if got == need:
            break
    return picks, need - got


PAIRS, MISSING_ORDERS = name_pairs()


def mixes():
    out = {}
    out["state1"] = (["@state_trigger(\"pyscript.a == '1'\")"], {"state": ["pyscript.a"]})
    for i, (x, y, order) in enumerate(PAIRS):
        out[f"state3_{i}"] = ([f"@state_trigger(\"{x} == '1' and {x}.old == '0' and {y} == '1'\")"], {"state3": [x, y]})
    out["state_attr"] = (["@state_trigger(\"pyscript.a.x\", \"pyscript.b.*\")"], {"attr": ["pyscript.a", "pyscript.b"]})
    # (not period(now, ...): with a frozen virtual clock "now == startup time" would hold on every iteration)
    out["time"] = (["@time_trigger(\"period(now + 1s, 5s)\")"], {"time": 5})
    out["event"] = (["@event_trigger(\"ev1\")"], {"event": "ev1"})
    out["mqtt"] = (["@mqtt_trigger(\"t/a\")"], {"mqtt": "t/a"})
    out["service"] = (["@service(\"pyscript.svc1\")"], {"service": "svc1"})
    out["updown"] = (["@time_trigger(\"startup\", \"shutdown\")"], {"updown": True})
    out["time_down"] = (["@time_trigger(\"shutdown\", \"period(now + 1s, 5s)\")"], {"time": 5, "down": True})
    out["combo"] = (["@state_trigger(\"pyscript.a == '1'\")", "@event_trigger(\"ev1\")", "@time_trigger(\"shutdown\")"],
                    {"state": ["pyscript.a"], "event": "ev1", "down": True})
    return out


MIXES = mixes()
QUICK_MIXES = ["state1", "state3_0", "state3_1", "state3_2", "state3_3", "state3_4", "state3_5", "state_attr", "time", "event",
               "mqtt", "service", "updown", "time_down", "combo"]
# the webhook mix allows a single live generation (a second registration of the same id is an error in HA)
WEBHOOK_MIX = (["@webhook_trigger(\"hookA\")"], {"webhook": "hookA"})

OPS = ["DEF", "DEL", "ALIAS", "DELG", "APPEND", "POP", "CLEAR", "DSET", "OCC"]


def decs_src(mix, indent=""):
    return "".join(indent + d + "\n" for d in mix[0])


PRELUDE = "runs = []\nlst = []\ndct = {}\n"


def make_src(mix):
    return ("def make(GENV):\n" + decs_src(mix, "    ") + "    def inner(**kw):\n" +
            "".join("    " + ln + "\n" for ln in BODY.rstrip("\n").split("\n")) + "    return inner\n")


def def_src(mix, gen):
    return decs_src(mix) + "def f(**kw):\n    GENV = %d\n" % gen + BODY


class RefModel:
    """names/containers -> generations; live = referenced generations."""

    def __init__(self):
        self.names = {}
        self.lst = []
        self.dct = {}
        self.gen = 0
        self.t_def = {}

    def live(self):
        return sorted(set(self.names.values()) | set(self.lst) | set(self.dct.values()))

    def canon(self):
        return (tuple(sorted(self.names.items())), tuple(self.lst), tuple(sorted(self.dct.items())))


class Session:
    """One world with an interactive context; applies ops to implementation and model in lock-step."""

    def __init__(self, mixname, mix, legacy):
        from mc.world import World

        self.mixname, self.mix, self.legacy = mixname, mix, legacy
        self.w = World({}, legacy=legacy)
        self.ctx = self.w.new_session("jupyter_0")
        for ent in self.entities():
            self.w.hass.states.async_set(ent, "0", {"x": 0})
        self.w.settle()
        self.base = self.census()
        self.w.exec_in(PRELUDE + make_src(mix), self.ctx)
        self.m = RefModel()
        self.nruns = 0
        self.toggle = 0
        self.collision = False

    def entities(self):
        k = self.mix[1]
        return k.get("state") or k.get("state3") or k.get("attr") or ["pyscript.a"]

    def census(self):
        c = self.w.census()
        c.pop("tasks", None)  # pyscript's own tasks are counted by our_tasks; HA's bookkeeping tasks are not ours
        return c

    def g(self):
        return self.w.g(self.ctx)

    def new_runs(self):
        runs = [tuple(r) for r in self.g()["runs"]]
        out = runs[self.nruns:]
        self.nruns = len(runs)
        return out

    def enabled(self, op):
        m = self.m
        if op in ("DEL", "ALIAS"):
            return "f" in m.names
        if op == "DELG":
            return "g" in m.names
        if op == "POP":
            return bool(m.lst)
        if op == "CLEAR":
            return bool(m.lst) or bool(m.dct)
        return True

    def apply(self, op):
        """Returns (expected run multiset, observed runs)."""
        m, w = self.m, self.w
        before = set(m.live())
        now = w.elapsed()
        if op == "DEF":
            if m.live() and "webhook" in self.mix[1]:
                self.collision = True  # two generations with one webhook id are registered at the same time
            m.gen += 1
            m.names["f"] = m.gen
            m.t_def[m.gen] = now
            w.exec_in(def_src(self.mix, m.gen), self.ctx)
        elif op == "DEL":
            del m.names["f"]
            w.exec_in("del f\n", self.ctx)
        elif op == "ALIAS":
            m.names["g"] = m.names["f"]
            w.exec_in("g = f\n", self.ctx)
        elif op == "DELG":
            del m.names["g"]
            w.exec_in("del g\n", self.ctx)
        elif op == "APPEND":
            m.gen += 1
            m.lst.append(m.gen)
            m.t_def[m.gen] = now
            w.exec_in(f"lst.append(make({m.gen}))\n", self.ctx)
        elif op == "POP":
            m.lst.pop()
            w.exec_in("lst.pop()\n", self.ctx)
        elif op == "CLEAR":
            m.lst.clear()
            m.dct.clear()
            w.exec_in("lst.clear()\ndct.clear()\n", self.ctx)
        elif op == "DSET":
            m.gen += 1
            m.dct["k"] = m.gen
            m.t_def[m.gen] = now
            w.exec_in(f"dct['k'] = make({m.gen})\n", self.ctx)
        expected = []
        keys = self.mix[1]
        after = set(m.live())
        if keys.get("updown"):
            expected += [(g, "time", "startup") for g in sorted(after - before)]
        if keys.get("updown") or keys.get("down"):
            expected += [(g, "time", "shutdown") for g in sorted(before - after)]
        if op == "OCC":
            expected += self.occurrence()
        w.collect()
        w.collect()
        return expected, self.new_runs()

    def occurrence(self):
        """Fire one occurrence of every kind; returns the expected runs by live generations."""
        w, m, keys = self.w, self.m, self.mix[1]
        live = m.live()
        exp = []
        self.toggle += 1
        ents = self.entities()
        # state: drive X 0 -> 1 with Y == 1 (and back to 0 afterwards)
        if len(ents) > 1:
            w.hass.states.async_set(ents[1], "1", {"x": self.toggle})
            w.settle()
        w.hass.states.async_set(ents[0], "1", {"x": self.toggle})
        w.settle()
        w.hass.states.async_set(ents[0], "0", {"x": self.toggle})
        w.settle()
        if len(ents) > 1:
            w.hass.states.async_set(ents[1], "0", {"x": self.toggle})
            w.settle()
        if "state" in keys or "state3" in keys:
            exp += [(g, "state", None) for g in live]
        if "attr" in keys:
            # a.x changes once (0->1 transition carries the new x), b.* changes twice (x then value... ) -> counted below
            exp += self._attr_expected(live)
        w.fire("ev1", {"n": self.toggle})
        w.settle()
        if "event" in keys:
            exp += [(g, "event", None) for g in live]
        w.broker.publish(w.loop, "t/a", "on")
        w.settle()
        if "mqtt" in keys:
            exp += [(g, "mqtt", None) for g in live]
        w.webhook("hookA", {"a": "1"})
        w.settle()
        if "webhook" in keys:
            exp += [(g, "webhook", None) for g in live]
        if w.hass.services.has_service("pyscript", "svc1"):
            w.call_service("pyscript", "svc1", {})
            if "service" in keys and live:
                exp += [("ANYLIVE", "service", None)]
        t0 = w.elapsed()
        w.advance(6.0)
        if "time" in keys:
            per = keys["time"]
            for g in live:
                td = m.t_def[g] + 1.0
                k = 0
                while td + per * k <= t0 + 6.0 + 1e-9:
                    if td + per * k > t0 + 1e-9:
                        exp.append((g, "time", None))
                    k += 1
        return exp

    def _attr_expected(self, live):
        # "pyscript.a.x" any-change: x changes when a is set to '1' with the new toggle (x: old -> toggle): 1 run;
        # setting a back to '0' keeps x: no run.  "pyscript.b.*": b set to '1' with new x (attr change): 1 run;
        # b back to '0' with same x: value change only -> no attribute changed -> no run.
        return [(g, "state", None) for g in live for _ in range(2)]

    def close(self):
        self.w.close()


_CANON_CACHE = {}


def canonical_census(mixname, mix, legacy, model):
    """Census of a fresh world where exactly the live generations were defined directly."""
    live = model.live()
    key = (mixname, legacy, model.canon())
    if key in _CANON_CACHE:
        return _CANON_CACHE[key]
    s = Session(mixname, mix, legacy)
    try:
        m = model
        done = set()
        code = []
        for name, g in sorted(m.names.items(), key=lambda kv: kv[1]):
            if g not in done:
                code.append(f"{name} = make({g})")
                done.add(g)
            else:
                first = [n for n, gg in m.names.items() if gg == g and n != name][0]
                code.append(f"{name} = {first}")
        for g in m.lst:
            code.append(f"lst.append(make({g}))")
        for k, g in m.dct.items():
            code.append(f"dct['{k}'] = make({g})")
        if code:
            s.w.exec_in("\n".join(code) + "\n", s.ctx)
        s.w.collect()
        c = s.census()
        base_ok = (not live and c == s.base) or bool(live)
        _CANON_CACHE[key] = (c, base_ok)
        return _CANON_CACHE[key]
    finally:
        s.close()


def census_diff(a, b):
    out = {}
    for k in sorted(set(a) | set(b)):
        x, y = a.get(k), b.get(k)
        if x == y:
            continue
        if isinstance(x, dict) and isinstance(y, dict):
            out[k] = {kk: (x.get(kk), y.get(kk)) for kk in sorted(set(x) | set(y)) if x.get(kk) != y.get(kk)}
        else:
            out[k] = (x, y)
    return out


def match_runs(expected, observed):
    exp = list(expected)
    obs = list(observed)
    anylive = [e for e in exp if e[0] == "ANYLIVE"]
    exp = [e for e in exp if e[0] != "ANYLIVE"]
    for e in anylive:
        cand = [o for o in obs if o[1] == e[1]]
        if not cand:
            return False
        obs.remove(cand[0])
    return sorted(map(repr, exp)) == sorted(map(repr, obs))


def run_session(mixname, legacy, seq):
    mix = MIXES.get(mixname) or WEBHOOK_MIX
    s = Session(mixname, mix, legacy)
    pending = []
    max_live = 0
    try:
        trace = []
        for i, op in enumerate(seq):
            if not s.enabled(op):
                return None, trace, s.m, "disabled"
            exp, obs = s.apply(op)
            trace.append((op, obs))
            live = s.m.live()
            max_live = max(max_live, len(live))
            dead_runs = [o for o in obs if o[0] not in live and o[2] != "shutdown"]
            if dead_runs:
                kind = "run-of-dead-generation"
                if "service" in mix[1] and max_live > 1 and all(o[1] == "service" for o in dead_runs):
                    # the recorded C12 finding seen from here: two live functions declared the service at once, the newest
                    # went away, and Home Assistant keeps calling it
                    kind = "dead-service-definition-ran-after-sibling-removal"
                return {"kind": kind, "step": i, "op": op, "expected": exp, "observed": obs}, trace, s.m, None
            if not match_runs(exp, obs):
                kind = "missing-run" if len(obs) < len(exp) else ("extra-run" if len(obs) > len(exp) else "wrong-run")
                return _mark(s, {"kind": kind, "step": i, "op": op, "expected": exp, "observed": obs}), trace, s.m, None
            cen = s.census()
            if not live:
                if cen != s.base:
                    return _mark(s, {"kind": "leak-vs-baseline", "step": i, "op": op, "diff": census_diff(s.base, cen)}), trace, s.m, None
            else:
                import copy
                pending.append((i, op, copy.deepcopy(s.m), cen))
        if s.w.errors:
            return {"kind": "loop-exception", "detail": repr(s.w.errors[0])[:300]}, trace, s.m, None
        # finally the integration is unloaded with the session still open: whatever is live is deactivated, nothing exceeds the baseline
        shut = [(g, "time", "shutdown") for g in s.m.live()] if (mix[1].get("updown") or mix[1].get("down")) else []
        runs_list = s.g()["runs"]
        n_before = len(runs_list)
        entry = s.w.hass.config_entries.async_entries("pyscript")[0]
        s.w.run(s.w.hass.config_entries.async_unload(entry.entry_id))
        s.w.collect()
        s.w.collect()
        got_shut = [tuple(r) for r in runs_list[n_before:]]
        if not match_runs(shut, got_shut):
            return _mark(s, {"kind": "runs-at-unload", "op": "UNLOAD", "expected": shut, "observed": got_shut}), trace, s.m, None
        cen = s.census()
        diff = {}
        for typ, cnt in cen["listeners"].items():
            if cnt > s.base["listeners"].get(typ, 0):
                diff.setdefault("listeners", {})[typ] = (s.base["listeners"].get(typ, 0), cnt)
        for k in ("webhooks", "mqtt", "state_notify", "event_notify", "mqtt_notify", "webhook_notify"):
            if cen[k] != s.base[k]:
                diff[k] = (s.base[k], cen[k])
        svc = {d: sorted(set(v) - set(s.base["services"].get(d, []))) for d, v in cen["services"].items()}
        svc = {d: v for d, v in svc.items() if v}
        if svc:
            diff["services"] = svc
        for k in ("our_tasks", "timers"):
            if cen[k] > s.base[k]:
                diff[k] = (s.base[k], cen[k])
        if diff:
            return _mark(s, {"kind": "leak-after-unload", "op": "UNLOAD", "diff": diff}), trace, s.m, None
    finally:
        s.close()
    # differential census check (only one world may exist at a time, so it happens after this one is closed)
    for i, op, model, cen in pending:
        ref, _ = canonical_census(mixname, mix, legacy, model)
        if cen != ref:
            return _mark(s, {"kind": "census-vs-direct-build", "step": i, "op": op, "diff": census_diff(ref, cen)}), trace, s.m, None
    return None, trace, s.m, None


def _mark(s, fail):
    if fail and s.collision:
        fail["kind"] = "webhook-redefine-collision"
        fail["op"] = "*"
    return fail


# ---- file engine -----------------------------------------------------------------------------
FILE_OPS = ["EDIT", "DELETE", "HASH", "RESTORE", "RELOADNAME", "OCC", "UNLOAD"]


def ghost_src(mix, gen):
    """Definitions that are gone again before the file has finished loading: a first `f` that the real one replaces,
    and a function that is deleted; both carry negative generation numbers and must never run or own anything."""
    return (def_src(mix, -gen) + decs_src(mix) + "def ghost(**kw):\n    GENV = %d\n" % (-1000 - gen) + BODY + "del ghost\n")


def file_src(mix, gen, ghost=False):
    if gen is None:
        return "runs = []\n"
    return PRELUDE + (ghost_src(mix, gen) if ghost else "") + def_src(mix, gen)


_FILE_CANON = {}


def file_canon_census(mixname, legacy):
    """Census of a world that loaded the file without the short-lived definitions."""
    from mc.world import World

    key = (mixname, legacy)
    if key not in _FILE_CANON:
        w = World({"hello.py": file_src(MIXES[mixname], 1)}, legacy=legacy)
        try:
            for ent in ("pyscript.a", "pyscript.b"):
                w.hass.states.async_set(ent, "0", {"x": 0})
            w.settle()
            w.collect()
            c = w.census()
            c.pop("tasks", None)
            _FILE_CANON[key] = c
        finally:
            w.close()
    return _FILE_CANON[key]


def run_file(mixname, legacy, seq, ghost=False):
    from mc.world import World

    mix = MIXES[mixname]
    canon = file_canon_census(mixname, legacy) if ghost else None
    w0 = World({}, legacy=legacy)
    try:
        base = w0.census()
        base.pop("tasks", None)
    finally:
        w0.close()
    runs_log = []
    w = World({"hello.py": file_src(mix, 1, ghost)}, legacy=legacy)
    try:
        for ent in ("pyscript.a", "pyscript.b"):
            w.hass.states.async_set(ent, "0", {"x": 0})
        w.settle()
        w.g()["__ext_runs__"] = runs_log
        gen, present, live, unloaded = 1, True, 1, False
        keys = mix[1]
        trace = []
        tog = 0

        def harvest():
            g = w.g()
            if g is None:
                return []
            out = [tuple(r) for r in g.get("runs", [])]
            del g["runs"][:]
            # whether a definition that is gone before its file finished loading gets its startup / shutdown entry is
            # left open (see ASSUMPTIONS); every other run of such a definition is a violation
            return [r for r in out if not (r[0] < 0 and r[2] in ("startup", "shutdown"))]

        carried = harvest()  # startup runs of generation 1
        exp0 = [(1, "time", "startup")] if keys.get("updown") else []
        if not match_runs(exp0, carried):
            return {"kind": "startup-runs", "expected": exp0, "observed": carried}, trace
        for i, op in enumerate(seq):
            if unloaded:
                break
            exp = []
            old_live = live
            pre = []
            if op == "EDIT":
                gen += 1
                w.write("hello.py" if present else "#hello.py", file_src(mix, gen, ghost))
                if present:
                    pre = harvest_before_reload(w)
                    w.reload()
                    live = gen
            elif op == "DELETE":
                if not present:
                    continue
                pre = harvest_before_reload(w)
                w.remove("hello.py")
                present = False
                w.reload()
                live = None
            elif op == "HASH":
                if not present:
                    continue
                pre = harvest_before_reload(w)
                w.rename("hello.py", "#hello.py")
                present = False
                w.reload()
                live = None
            elif op == "RESTORE":
                if present:
                    continue
                import os
                if os.path.exists(os.path.join(w.psdir, "#hello.py")):
                    w.rename("#hello.py", "hello.py")
                    w.touch("hello.py")
                else:
                    w.write("hello.py", file_src(mix, gen, ghost))
                present = True
                w.reload()
                live = gen
            elif op == "RELOADNAME":
                if not present:
                    continue
                pre = harvest_before_reload(w)
                w.reload("file.hello")
                gen += 0
                live = gen
                # same source re-executed: a new function object of the same generation number
                old_live = "re:" + str(gen)
            elif op == "UNLOAD":
                pre = harvest_before_reload(w)
                entry = w.hass.config_entries.async_entries("pyscript")[0]
                w.run(w.hass.config_entries.async_unload(entry.entry_id))
                unloaded = True
                live = None
            elif op == "OCC":
                tog += 1
                w.hass.states.async_set("pyscript.a", "1", {"x": tog})
                w.settle()
                w.hass.states.async_set("pyscript.a", "0", {"x": tog})
                w.settle()
                w.fire("ev1", {})
                w.settle()
                if live is not None:
                    if "state" in keys:
                        exp.append((live, "state", None))
                    if "event" in keys:
                        exp.append((live, "event", None))
            w.collect()
            w.collect()
            obs = [r for r in pre if not (r[0] < 0 and r[2] in ("startup", "shutdown"))] + harvest()
            if op != "OCC" and old_live != live:
                ol = int(str(old_live).split(":")[-1]) if old_live is not None else None
                if ol is not None and (keys.get("updown") or keys.get("down")):
                    exp.append((ol, "time", "shutdown"))
                if live is not None and keys.get("updown"):
                    exp.append((live, "time", "startup"))
            trace.append((op, obs))
            if not match_runs(exp, obs):
                kind = "missing-run" if len(obs) < len(exp) else ("extra-run" if len(obs) > len(exp) else "wrong-run")
                return {"kind": kind, "step": i, "op": op, "expected": exp, "observed": obs}, trace
            cen = w.census()
            cen.pop("tasks", None)
            if ghost and live is not None and not unloaded and cen != canon:
                return {"kind": "short-lived-definition-left-something", "step": i, "op": op, "diff": census_diff(canon, cen)}, trace
            if live is None and not unloaded and cen != base:
                return {"kind": "leak-vs-baseline", "step": i, "op": op, "diff": census_diff(base, cen)}, trace
            if unloaded:
                # after unload nothing may exceed the empty-script baseline (the integration's own listeners are gone too)
                diff = {}
                for typ, cnt in cen["listeners"].items():
                    if cnt > base["listeners"].get(typ, 0):
                        diff.setdefault("listeners", {})[typ] = (base["listeners"].get(typ, 0), cnt)
                for k in ("services", "webhooks", "mqtt", "state_notify", "event_notify", "mqtt_notify", "webhook_notify"):
                    if cen[k] != base[k]:
                        diff[k] = (base[k], cen[k])
                for k in ("our_tasks", "timers"):
                    if cen[k] > base[k]:
                        diff[k] = (base[k], cen[k])
                if diff:
                    return {"kind": "leak-after-unload", "step": i, "op": op, "diff": diff}, trace
        if w.errors:
            return {"kind": "loop-exception", "detail": repr(w.errors[0])[:300]}, trace
        return None, trace
    finally:
        w.close()


# ---- a trigger function defined by a task that outlives its context ------------------------------------
LATE_OPS = ["EDIT", "DELETE", "RESTORE", "RELOADNAME", "MK", "OCC"]


def late_src(gen):
    return (f"GEN = {gen}\nkeep = []\ndef setup():\n    task.wait_until(event_trigger='mk')\n    @event_trigger('ev1')\n"
            "    def late(**kw):\n        EXT.append((GEN, kw.get('trigger_type')))\n    keep.append(late)\ntask.create(setup)\n")


def run_late(legacy, seq):
    """Each load of the file starts a task that waits for event 'mk' and then defines a trigger closure in ITS context.  The
    closure is active iff that context is the loaded one when it is defined, and only until the context is unloaded."""
    from mc.world import World

    ext = []
    w = World({"hello.py": late_src(1)}, legacy=legacy)
    try:
        w.settle()
        w.g()["EXT"] = ext
        gen, present = 1, True
        ctxs = [1]          # generation of every context ever loaded, index = context id
        current = 0         # index of the loaded context or None
        pending = {0}
        made = set()
        trace = []
        for i, op in enumerate(seq):
            exp = []
            if op in ("EDIT", "RESTORE", "RELOADNAME"):
                if op == "EDIT":
                    gen += 1
                    w.write("hello.py" if present else "#hello.py", late_src(gen))
                    if not present:
                        continue
                    w.reload()
                elif op == "RESTORE":
                    if present:
                        continue
                    w.write("hello.py", late_src(gen))
                    present = True
                    w.reload()
                else:
                    if not present:
                        continue
                    w.reload("file.hello")
                w.settle()
                if w.g() is None:
                    return {"kind": "file-not-loaded", "step": i, "op": op}, trace
                w.g()["EXT"] = ext
                ctxs.append(gen)
                current = len(ctxs) - 1
                pending.add(current)
            elif op == "DELETE":
                if not present:
                    continue
                w.remove("hello.py")
                present = False
                w.reload()
                current = None
            elif op == "MK":
                w.fire("mk", {})
                w.settle()
                made |= pending
                pending = set()
            elif op == "OCC":
                n0 = len(ext)
                w.fire("ev1", {})
                w.settle()
                if current is not None and current in made:
                    exp = [(ctxs[current], "event")]
                got = list(ext[n0:])
                trace.append((op, got))
                if sorted(got) != sorted(exp):
                    kind = "closure-of-unloaded-context-ran" if len(got) > len(exp) else "closure-of-loaded-context-silent"
                    return {"kind": kind, "step": i, "op": op, "expected": exp, "observed": got}, trace
            w.collect()
            cen = w.census()
            active = current is not None and current in made
            have = cen["listeners"].get("ev1", 0)
            if (have > 0) != active or have > 1:
                return {"kind": "listener-of-late-closure", "step": i, "op": op, "expected": 1 if active else 0, "observed": have}, trace
            if op != "OCC":
                trace.append((op, [("listeners", have)]))
        if w.errors:
            return {"kind": "loop-exception", "detail": repr(w.errors[0])[:300]}, trace
        return None, trace
    finally:
        w.close()


def run_appimport(legacy, importer):
    """An app that is loaded and running is later imported by another app: the running context is replaced, not doubled - every occurrence
    runs its trigger once, and unload leaves nothing."""
    from mc.world import World

    a_src = "@event_trigger('ev1')\ndef f(**kw):\n    pyscript.cnt = str(int(pyscript.cnt) + 1)\n"
    w = World({"apps/a.py": a_src}, legacy=legacy, config={"apps": {"a": {}, "b": {}}})
    try:
        w.hass.states.async_set("pyscript.cnt", "0")
        w.settle()
        obs = []

        def occ():
            w.fire("ev1", {})
            w.settle()
            obs.append((w.hass.states.get("pyscript.cnt").state, w.census()["listeners"].get("ev1", 0)))

        occ()
        w.write(importer, "import a\n" if importer.endswith("__init__.py") else "from a import f as a_f\n")
        w.reload()
        w.settle()
        occ()
        w.touch("apps/a.py")
        w.reload()
        w.settle()
        occ()
        entry = w.hass.config_entries.async_entries("pyscript")[0]
        w.run(w.hass.config_entries.async_unload(entry.entry_id))
        w.collect()
        occ()
        want = [("1", 1), ("2", 1), ("3", 1), ("3", 0)]
        if obs != want:
            return {"kind": "app-imported-by-app", "expected": want, "observed": obs}, obs
        if w.errors:
            return {"kind": "loop-exception", "detail": repr(w.errors[0])[:300]}, obs
        return None, obs
    finally:
        w.close()


def harvest_before_reload(w):
    """Runs recorded in the context that is about to be discarded."""
    g = w.g()
    if g is None:
        return []
    lst = g.get("runs")
    if lst is None:
        return []
    # keep a reference: shutdown runs are appended to this list after the context is gone
    holder = lst
    w._c09_holder = holder
    out = [tuple(r) for r in holder]
    del holder[:]
    return _Late(out, holder)


class _Late(list):
    """List of already harvested runs + late additions (shutdown runs appended while reloading)."""

    def __init__(self, items, holder):
        super().__init__(items)
        self.holder = holder

    def __iter__(self):
        late = [tuple(r) for r in self.holder]
        return iter(list(super().__iter__()) + late)


# ---- plan ------------------------------------------------------------------------------------
def bounds(tier):
    return {"session_depth": 4 if tier == "thorough" else 3, "file_depth": 4 if tier == "thorough" else 3,
            "mixes": sorted(MIXES), "iteration_orders_covered": len(PAIRS), "iteration_orders_missing": sorted(map(str, MISSING_ORDERS))}


def plan(tier, seed):
    shards = []
    depth = 4 if tier == "thorough" else 3
    n = 6 if tier == "thorough" else 2
    for mixname in list(MIXES):
        for legacy in (False, True):
            for k in range(n):
                shards.append(("session", mixname, legacy, depth, k, n))
    for legacy in (False, True):
        shards.append(("webhook", legacy))
    for mixname in ("state1", "event", "updown", "combo", "service"):
        for legacy in (False, True):
            shards.append(("file", mixname, legacy, depth))
    for legacy in (False, True):
        shards.append(("late", legacy, 5 if tier == "thorough" else 4))
        shards.append(("appimport", legacy))
    # the same file histories with definitions that are replaced / deleted while the file is still loading
    for mixname in ("state1", "event", "updown", "combo", "service", "time", "mqtt", "webhook"):
        if mixname in MIXES:
            for legacy in (False, True):
                shards.append(("fileghost", mixname, legacy, depth if tier == "thorough" else 2))
    return shards


def run_shard(shard):
    res = Shard()
    if MISSING_ORDERS:
        res.caps.add("iteration orders not realised under this hash seed: " + str(sorted(MISSING_ORDERS)))
    kind = shard[0]
    if kind == "session":
        _, mixname, legacy, depth, k, n = shard
        for i, seq in enumerate(EX.sequences(OPS, depth)):
            if i % n != k:
                continue
            fail, trace, m, skipped = run_session(mixname, legacy, seq)
            if skipped:
                continue
            record(res, "session", mixname, legacy, seq, fail, trace, m)
    elif kind == "appimport":
        legacy = shard[1]
        for importer in ("apps/b/__init__.py", "apps/b.py"):
            fail, obs = run_appimport(legacy, importer)
            record(res, "appimport", "appimport", legacy, (importer,), fail, [("obs", obs)], None)
    elif kind == "late":
        _, legacy, depth = shard
        for seq in EX.sequences(LATE_OPS, depth):
            if "MK" not in seq or "OCC" not in seq:
                continue
            fail, trace = run_late(legacy, seq)
            record(res, "late", "late", legacy, seq, fail, trace, None)
    elif kind == "webhook":
        legacy = shard[1]
        for seq in EX.sequences(["DEF", "DEL", "OCC", "ALIAS", "DELG"], 4):
            fail, trace, m, skipped = run_session("webhook", legacy, seq)
            if skipped:
                continue
            record(res, "session", "webhook", legacy, seq, fail, trace, m)
    else:
        _, mixname, legacy, depth = shard
        for seq in EX.sequences(FILE_OPS, depth):
            fail, trace = run_file(mixname, legacy, seq, ghost=kind == "fileghost")
            record(res, kind, mixname, legacy, seq, fail, trace, None)
    return res


def record(res, engine, mixname, legacy, seq, fail, trace, m):
    case = {"engine": engine, "mix": mixname, "legacy": legacy, "seq": list(seq)}
    nruns = sum(len(t[1]) for t in trace)
    res.case((mixname, tuple((op, tuple(sorted(map(repr, obs)))) for op, obs in trace)), nontrivial=nruns > 0,
             transitions=len(seq), config=f"{engine}/{mixname}/{'legacy' if legacy else 'new'}", sample=case,
             state=(mixname, m.canon() if m else tuple(seq)))
    if fail:
        fam = mixname.split("_")[0] if mixname.startswith("state3") else mixname
        res.fail(f"{engine}|{fam}|{'legacy' if legacy else 'new'}|{fail['kind']}|{fail.get('op')}", case,
                 expected=fail.get("expected"), observed=fail.get("observed") or fail.get("diff"), detail=fail)


def replay(case):
    if case["engine"] == "appimport":
        fail, obs = run_appimport(case["legacy"], case["seq"][0])
        return {"ok": fail is None, "failure": fail, "observed": obs}
    if case["engine"] == "late":
        fail, trace = run_late(case["legacy"], tuple(case["seq"]))
        return {"ok": fail is None, "failure": fail, "trace": [list(t) for t in trace]}
    if case["engine"] == "session":
        fail, trace, m, skipped = run_session(case["mix"], case["legacy"], tuple(case["seq"]))
    else:
        fail, trace = run_file(case["mix"], case["legacy"], tuple(case["seq"]), ghost=case["engine"] == "fileghost")
    return {"ok": fail is None, "failure": fail, "trace": [(op, list(obs)) for op, obs in trace]}
