"""C13 — task.unique guarantees at most one live owner per name (E1 with preemption-style deviations)."""

import itertools

from mc.result import Shard

PID = "C13"
LEVEL = "model_checking"
RULE = (
    "participants: 2-3 tasks started by pyscript (service calls, or event triggers carrying @task_unique with and without "
    "kill_me) in one or two global contexts, optionally a task NOT started by pyscript; each runs a generated program "
    "over {unique(n1), unique(n1, kill_me=True), unique(n2), sleep, raise} and finishes; every statement is preceded by a "
    "gate the explorer opens. The explorer enumerates, driven by the ownership model's enabledness, EVERY complete "
    "schedule of task starts, gate releases and time advances (all interleavings), each executed on a fresh world. "
    "Default environment answer: run the loop to quiescence after each action, then compare progress markers, the "
    "name->owner map (task.name2id's table) and task liveness with the ownership model (Appendix A.4). Deviations "
    "(bounded, iterated 0..D): the next action is issued after only k in {0,1,2,3} loop callbacks, i.e. while a "
    "cancellation is still queued in the reaper; in those executions the structural invariants are checked in every "
    "state (the two ownership tables are inverse of each other, every owner is a live task, a foreign task is never "
    "cancelled, no internal error is logged) and the model again at the final quiescence when the outcome does not "
    "depend on the race. distinct = distinct (participants, markers, final owners); non-trivial = some task was "
    "cancelled or terminated by unique"
)
ASSUMPTIONS = [
    "ownership semantics are DESIGN.md Appendix A.4 (from the property statement and the task.unique documentation)",
    "more than 3 participants and programs longer than the tier's bound are not explored; no random schedules",
]
MAXTASKS = 40

HELPER = '''
def claim(name):
    task.unique(name)
    return task.name2id(name)
'''

SRC = '''
import helper
def body(i, ops):
    TASKS[i] = task.current_task()
    marks.append((i, "start"))
    for n, op in enumerate(ops):
        gate(i)
        if op[0] == "u":
            task.unique(op[1], kill_me=op[2])
            marks.append((i, n, "u-ret"))
        elif op[0] == "mu":
            # claimed and looked up inside a function of an imported module: the name lives in the module's context
            who = helper.claim(op[1])
            marks.append((i, n, "mu-ret" if who is task.current_task() else "mu-ret-WRONG-OWNER-REPORTED"))
        elif op[0] == "sleep":
            task.sleep(5)
            marks.append((i, n, "slept"))
        elif op[0] == "raise":
            raise ValueError("x")
    gate(i)
    marks.append((i, "end"))

@service
def go_CTX(i=None, ops=None):
    body(i, ops)

@event_trigger("ev_CTX_u")
@task_unique("n1")
def trig_u(i=None, ops=None, **kw):
    body(i, ops)

@event_trigger("ev_CTX_k")
@task_unique("n1", kill_me=True)
def trig_k(i=None, ops=None, **kw):
    body(i, ops)
'''

U1, K1, U2, SL, RA = ("u", "n1", False), ("u", "n1", True), ("u", "n2", False), ("sleep",), ("raise",)
MU = ("mu", "n1")
OPS_FULL = [U1, K1, U2, SL, RA]
OPS_CORE = [U1, K1, RA]


class Model:
    """Ownership model (Appendix A.4) stepped by scheduler actions."""

    def __init__(self, parts):
        self.parts = parts  # list of (kind, ctx, ops)
        n = len(parts)
        self.started = [False] * n
        self.alive = [False] * n
        self.pc = [0] * n
        self.sleeping = [False] * n
        self.owner = {}
        self.marks = []
        self.killed_by_unique = 0
        self.sleep_order = []

    def clone(self):
        m = Model(self.parts)
        m.started, m.alive, m.pc, m.sleeping = list(self.started), list(self.alive), list(self.pc), list(self.sleeping)
        m.owner, m.marks, m.killed_by_unique = dict(self.owner), list(self.marks), self.killed_by_unique
        m.sleep_order = list(self.sleep_order)
        return m

    def enabled(self):
        acts = []
        for i, (kind, ctx, ops) in enumerate(self.parts):
            if not self.started[i]:
                acts.append(("START", i))
                break  # tasks are started in index order (their relative order is covered by permuting participants)
        for i in range(len(self.parts)):
            if self.started[i] and self.alive[i] and not self.sleeping[i]:
                acts.append(("REL", i))
        if any(self.sleeping[i] and self.alive[i] for i in range(len(self.parts))):
            acts.append(("ADV",))
        return acts

    def kill(self, j, by_unique=True):
        if self.alive[j]:
            self.alive[j] = False
            self.sleeping[j] = False
            if by_unique:
                self.killed_by_unique += 1
            for k in [k for k, v in self.owner.items() if v == j]:
                del self.owner[k]

    def unique(self, i, name, kill_me, ctx=None):
        kind, own_ctx, _ = self.parts[i]
        key = (ctx or own_ctx, name)
        o = self.owner.get(key)
        if kill_me:
            if o is not None and o != i:
                self.kill(i)
                return False
        elif o is not None and o != i:
            self.kill(o)
        if kind != "foreign":
            self.owner[key] = i
        return True

    def step(self, act):
        if act[0] == "START":
            i = act[1]
            kind = self.parts[i][0]
            self.started[i] = True
            self.alive[i] = True
            if kind == "trgK":
                if not self.unique(i, "n1", True):
                    return
            elif kind == "trgU":
                self.unique(i, "n1", False)
            self.marks.append((i, "start"))
        elif act[0] == "REL":
            i = act[1]
            ops = self.parts[i][2]
            pc = self.pc[i]
            if pc >= len(ops):
                self.marks.append((i, "end"))
                self.kill(i, by_unique=False)
                return
            op = ops[pc]
            self.pc[i] += 1
            if op[0] == "u":
                if self.unique(i, op[1], op[2]):
                    self.marks.append((i, pc, "u-ret"))
            elif op[0] == "mu":
                if self.unique(i, op[1], False, ctx="helper"):
                    self.marks.append((i, pc, "mu-ret"))
            elif op[0] == "sleep":
                self.sleeping[i] = True
                self.sleep_order.append(i)
            elif op[0] == "raise":
                self.kill(i, by_unique=False)
        elif act[0] == "ADV":
            # sleepers wake in the order in which they went to sleep (same virtual instant: timer order)
            for i in self.sleep_order:
                if self.sleeping[i] and self.alive[i]:
                    self.sleeping[i] = False
                    self.marks.append((i, self.pc[i] - 1, "slept"))
            self.sleep_order = []


def schedules(parts, cap=200000):
    """Every complete schedule (DFS over the model's enabled actions)."""
    out = []

    def rec(m, sched):
        acts = m.enabled()
        if not acts:
            out.append(tuple(sched))
            if len(out) > cap:
                raise RuntimeError("schedule cap")
            return
        for a in acts:
            m2 = m.clone()
            m2.step(a)
            rec(m2, sched + [a])

    rec(Model(parts), [])
    return out


class Run:
    def __init__(self, parts, legacy):
        import logging

        from mc.world import World

        self.parts = parts
        files = {"a.py": SRC.replace("CTX", "a"), "b.py": SRC.replace("CTX", "b"), "modules/helper.py": HELPER}
        self.w = w = World(files, legacy=legacy, capture_logs=True, log_level=logging.ERROR)
        self.marks, self.tasks, self.gates = [], {}, {}
        self.foreign = {}

        async def gate(i):
            fut = w.loop.create_future()
            self.gates.setdefault(i, []).append(fut)
            await fut

        for ctx in ("file.a", "file.b"):
            g = w.g(ctx)
            g["marks"], g["TASKS"], g["gate"] = self.marks, self.tasks, gate

    def start(self, i):
        kind, ctx, ops = self.parts[i]
        w = self.w
        data = {"i": i, "ops": [list(o) for o in ops]}
        if kind == "svc":
            w.start_service("pyscript", f"go_{ctx}", data)
        elif kind in ("trgU", "trgK"):
            w.fire(f"ev_{ctx}_{'u' if kind == 'trgU' else 'k'}", data)
        else:
            from custom_components.pyscript.eval import AstEval
            from custom_components.pyscript.function import Function

            gctx = w.ctx(f"file.{ctx}")
            a = AstEval(f"file.{ctx}.foreign", gctx)
            Function.install_ast_funcs(a)
            a.parse(f"body({i}, {[tuple(o) for o in ops]!r})")
            self.foreign[i] = w.loop.create_task(a.eval())

    def release(self, i):
        q = self.gates.get(i) or []
        while q:
            fut = q.pop(0)
            if not fut.done():
                fut.set_result(None)
                return True
        return False

    def invariants(self):
        from custom_components.pyscript.function import Function

        for name, t in Function.unique_name2task.items():
            if t.done():
                return ("owner-is-dead-task", name)
            if name not in Function.unique_task2name.get(t, ()):
                return ("tables-not-inverse", name)
        for t, names in Function.unique_task2name.items():
            for n in names:
                if Function.unique_name2task.get(n) is not t:
                    return ("tables-not-inverse", n)
        for i, t in self.foreign.items():
            if t.cancelled():
                return ("foreign-task-cancelled", i)
        errs = [r for r in self.w.logs.records if r[0].endswith(".function") or "Traceback" in r[2] and "ValueError: x" not in r[2]]
        errs = [r for r in errs if "ValueError: x" not in r[2] and "ValueError('x')" not in r[2]]
        if errs:
            return ("internal-error-logged", errs[0][2][:200])
        if self.w.errors:
            return ("loop-exception", repr(self.w.errors[0])[:200])
        return None

    def owners(self):
        from custom_components.pyscript.function import Function

        inv = {id(t): i for i, t in self.tasks.items()}
        out = {}
        for name, t in Function.unique_name2task.items():
            ctx, nm = name.rsplit(".", 1)
            out[(ctx.split(".")[-1], nm)] = inv.get(id(t), "unknown")
        return out

    def liveness(self):
        out = {}
        for i, t in self.tasks.items():
            out[i] = not t.done()
        return out

    def close(self):
        self.w.close()


def execute(parts, legacy, sched, devs):
    """devs: {position: k} - after action at `position` run only k callbacks instead of settling."""
    m = Model(parts)
    r = Run(parts, legacy)
    try:
        settled_ok = True
        for pos, act in enumerate(sched):
            m.step(act)
            if act[0] == "START":
                r.start(act[1])
            elif act[0] == "REL":
                r.release(act[1])
            else:
                r.w.advance(6.0)
            if pos in devs:
                r.w.loop.run_steps(devs[pos])
                settled_ok = False
            else:
                r.w.settle()
            inv = r.invariants()
            if inv:
                return {"kind": inv[0], "at": pos, "detail": inv[1]}, r.marks, m
            if settled_ok:
                fail = compare(r, m, pos)
                if fail:
                    return fail, r.marks, m
        r.w.settle()
        r.w.advance(6.0)
        inv = r.invariants() or live_claimants(r, parts)
        if inv:
            return {"kind": inv[0], "at": "end", "detail": inv[1]}, r.marks, m
        if settled_ok:
            fail = compare(r, m, "end")
            if fail:
                return fail, r.marks, m
        return None, list(r.marks), m
    finally:
        r.close()


def live_claimants(r, parts):
    """At quiescence every live pyscript task that successfully claimed a name must be its owner: a later claimant
    would have cancelled it (this needs no model, so it also applies to executions with deviations)."""
    own = r.owners()
    live = r.liveness()
    for mk in [tuple(x) for x in r.marks]:
        i = mk[0]
        kind, ctx, ops = parts[i]
        if kind == "foreign" or not live.get(i, False):
            continue
        names = []
        if len(mk) == 2 and mk[1] == "start" and kind in ("trgU", "trgK"):
            names.append("n1")
        if len(mk) == 3 and mk[2] == "u-ret":
            names.append(ops[mk[1]][1])
        for nm in names:
            if own.get((ctx, nm)) != i:
                return ("live-claimant-not-owner", {"task": i, "name": nm, "owner": own.get((ctx, nm))})
    return None


def compare(r, m, pos):
    marks = [tuple(x) for x in r.marks]
    # total order, except that the markers of one action (tasks woken by the same time advance) may permute
    done = getattr(r, "cmp_len", 0)
    if marks[:done] != r.cmp_prefix if done else False:
        return {"kind": "markers", "at": pos, "expected": m.marks, "observed": marks}
    if sorted(map(repr, marks[done:])) != sorted(map(repr, m.marks[done:])) or len(marks) != len(m.marks):
        return {"kind": "markers", "at": pos, "expected": m.marks, "observed": marks}
    for i in {x[0] for x in marks}:
        if [x for x in marks if x[0] == i] != [x for x in m.marks if x[0] == i]:
            return {"kind": "markers", "at": pos, "expected": m.marks, "observed": marks}
    r.cmp_len, r.cmp_prefix = len(marks), list(marks)
    m.marks = list(marks)  # adopt the observed order inside the chunk
    own = r.owners()
    if own != m.owner:
        return {"kind": "owners", "at": pos, "expected": sorted(m.owner.items()), "observed": sorted(own.items())}
    live = r.liveness()
    for i, alive in live.items():
        if alive != m.alive[i]:
            return {"kind": "liveness", "at": pos, "task": i, "expected": m.alive[i], "observed": alive}
    return None


def programs(ops, maxlen):
    out = []
    for n in range(0, maxlen + 1):
        out += list(itertools.product(ops, repeat=n))
    return out


def configs(tier):
    """Yield (participants, max deviations)."""
    out = []
    full2 = programs(OPS_FULL, 2)
    core2 = programs(OPS_CORE, 2)
    core1 = programs(OPS_CORE, 1)
    maxlen3 = 2 if tier == "thorough" else 1
    # two service tasks, same and different contexts, full alphabet, settled
    for ctxs in (("a", "a"), ("a", "b")):
        if tier == "thorough":
            progs = full2 if ctxs == ("a", "a") else core2
        else:
            progs = sorted(set(programs(OPS_FULL, 1)) | set(core2) | {(U1, U2), (U2, U1), (U2, K1)}) if ctxs == ("a", "a") else core1
        for p0, p1 in itertools.product(progs, repeat=2):
            out.append(([("svc", ctxs[0], p0), ("svc", ctxs[1], p1)], 0))
    # deviations on the core alphabet
    dev = 2 if tier == "thorough" else 1
    for p0, p1 in itertools.product(core2 if tier == "thorough" else core1 + [(U1, U1), (U1, K1)], repeat=2):
        out.append(([("svc", "a", p0), ("svc", "a", p1)], dev))
    # decorator forms
    for k0, k1 in itertools.product(("svc", "trgU", "trgK"), repeat=2):
        if k0 == k1 == "svc":
            continue
        for p0, p1 in itertools.product(core1, repeat=2):
            out.append(([(k0, "a", p0), (k1, "a", p1)], 1))
    # decorated functions in two different contexts use the same unique name independently of each other
    for k0, k1 in itertools.product(("trgU", "trgK"), repeat=2):
        for p0, p1 in itertools.product(core1, repeat=2):
            out.append(([(k0, "a", p0), (k1, "b", p1)], 0))
    # names claimed and looked up inside a function of an imported module (shared by both importing contexts)
    for ctxs in (("a", "a"), ("a", "b")):
        for p0, p1 in itertools.product([(MU,), (MU, U1), (U1, MU)], repeat=2):
            out.append(([("svc", ctxs[0], p0), ("svc", ctxs[1], p1)], 0))
    # a foreign task
    for p0 in core1:
        out.append(([("svc", "a", p0), ("foreign", "a", (U1,))], 1))
        out.append(([("foreign", "a", (U1,)), ("svc", "a", p0)], 1))
    # three tasks
    for ps in itertools.product(programs([U1, K1], maxlen3), repeat=3):
        # thorough: one deviation where every program has one operation, none with the two-operation programs
        # (1.8 million further executions otherwise: more than the four-hour budget of a background run)
        d3 = 1 if tier == "thorough" and max(len(p) for p in ps) == 1 else 0
        out.append(([("svc", "a", ps[0]), ("svc", "a", ps[1]), ("svc", "a", ps[2])], d3))
    # an owner plus two claimers released in the same instant (deviations on three tasks)
    for p1, p2 in itertools.product([(U1,), (K1,)], repeat=2):
        out.append(([("svc", "a", (U1,)), ("svc", "a", p1), ("svc", "a", p2)], 1 if tier == "quick" else 2))
    if tier == "thorough":
        for ps in itertools.product(programs([U1, K1], 1), repeat=4):
            out.append(([("svc", "a", p) for p in ps], 0))
    return out


def deviations(nact, maxdev, ks=(0, 1, 2, 3)):
    out = [{}]
    for nd in range(1, maxdev + 1):
        for pos in itertools.combinations(range(nact - 1), nd):
            for kk in itertools.product(ks, repeat=nd):
                out.append(dict(zip(pos, kk)))
    return out


def bounds(tier):
    return {"participants": "2-3 (thorough: 4 on {unique, kill_me})", "program_length": 2, "names": 2, "contexts": 2,
            "max_deviations": 2 if tier == "thorough" else 1, "k": [0, 1, 2, 3] if tier == "thorough" else "0..2 (two tasks), 0..1 (three tasks)"}


def plan(tier, seed):
    cfgs = configs(tier)
    n = 96 if tier == "thorough" else 32
    return [(tier, legacy, k, n) for legacy in (False, True) for k in range(n)]


def run_shard(shard):
    tier, legacy, k, n = shard
    res = Shard()
    for ci, (parts, maxdev) in enumerate(configs(tier)):
        if ci % n != k:
            continue
        # quick: callback gaps {0, 1} with three participants, {0, 1, 2} with two (thorough: {0, 1, 2, 3})
        ks = (0, 1, 2, 3) if tier == "thorough" else ((0, 1) if len(parts) > 2 else (0, 1, 2))
        for sched in schedules(parts):
            for devs in deviations(len(sched), maxdev, ks):
                fail, marks, m = execute(parts, legacy, sched, devs)
                case = {"parts": [[p[0], p[1], [list(o) for o in p[2]]] for p in parts], "legacy": legacy,
                        "sched": [list(a) for a in sched], "devs": {str(a): b for a, b in devs.items()}}
                res.case((tuple(map(tuple, marks)), tuple(sorted(m.owner.items()))), nontrivial=m.killed_by_unique > 0,
                         transitions=len(sched), config=("dev" if devs else "settled") + "/" + ("legacy" if legacy else "new"), sample=case)
                if fail:
                    kinds = "+".join(sorted({p[0] for p in parts}))
                    res.fail(f"{'legacy' if legacy else 'new'}|{kinds}|{fail['kind']}|{'dev' if devs else 'settled'}", case,
                             expected=fail.get("expected"), observed=fail.get("observed") or fail.get("detail"), detail=fail)
    return res


def replay(case):
    parts = [(p[0], p[1], tuple(tuple(o) for o in p[2])) for p in case["parts"]]
    sched = [tuple(a) for a in case["sched"]]
    devs = {int(a): b for a, b in case["devs"].items()}
    fail, marks, m = execute(parts, case["legacy"], sched, devs)
    return {"ok": fail is None, "failure": fail, "marks": [list(x) for x in marks], "model_marks": m.marks}
