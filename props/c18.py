"""C18 — script errors are contained and attributed to the right file, function, line (E3 + E4)."""

import itertools
import os
import re
import traceback

from mc.result import Shard

PID = "C18"
LEVEL = "model_checking"
RULE = (
    "program = a call chain of depth 1..5 whose levels use the call forms {plain, multi-line call, method of a class "
    "instance, call inside a comprehension, user-decorated function, function of an imported pyscript module}; fault-point "
    "enumeration: each of 12 fault kinds (ZeroDivisionError, IndexError, KeyError, AttributeError, ValueError, NameError, "
    "TypeError, AssertionError with message, ModuleNotFoundError, user exception class, raise-from, exception raised "
    "while handling another, raise ... from None while handling another) is injected at EVERY statement position of every level (before the call, after the call), "
    "and the chain is entered from EVERY kind of user-code entry point {service function, event / state / time-startup "
    "trigger function, state-trigger expression, @state_active expression, event filter expression, task.create body, "
    "done callback (followed by a second callback on the same task, which must still run), task.wait_until trigger expression, a service call that is still waiting when its file is reloaded and fails afterwards, load time} in both subsystems. Oracle: (1) exactly one ERROR record, on the script's own logger "
    "(custom_components.pyscript.<context>[.<function>]), carrying the exception type and message; (2) the (file, function, "
    "line) triples of its script frames equal those of CPython's traceback for the same source run natively; (3) "
    "containment: the loop's exception handler saw nothing, the service call did not raise into Home Assistant, a second "
    "occurrence with a harmless argument still runs the function, a function in another file still runs, a load-time "
    "fault leaves exactly that file unloaded. distinct = distinct (entry, chain shape, fault kind, position); "
    "non-trivial = every case (each has a fault)"
)
ASSUMPTIONS = [
    "CPython's traceback for the natively executed source is the reference for (file, function, line)",
    "frames of pyscript internals and of expression snippets (decorator arguments) are not compared",
    "recursive chains are not generated (pyscript merges consecutive frames of one function)",
]
MAXTASKS = 40

FAULTS = [
    ("zerodiv", "junk = 1 / 0", "ZeroDivisionError", "division by zero"),
    ("index", "junk = [][1]", "IndexError", "list index out of range"),
    ("key", "junk = {}['nokey']", "KeyError", "nokey"),
    ("attr", "junk = None.nope", "AttributeError", "nope"),
    ("value", "junk = int('xyz')", "ValueError", "xyz"),
    ("name", "junk = undefined_name_zz", "NameError", "undefined_name_zz"),
    ("type", "junk = 'a' + 1", "TypeError", "str"),
    ("assert", "assert x > 0, 'assert-msg'", "AssertionError", "assert-msg"),
    ("import", "import nosuchmodule_zz", "ModuleNotFoundError", "nosuchmodule_zz"),
    ("user", "raise UserErr('user-msg')", "UserErr", "user-msg"),
    ("from", "raise KeyError('outer-k') from ValueError('inner-v')", "KeyError", "outer-k"),
    ("context", "try:\n    junk = 1 / 0\nexcept ZeroDivisionError:\n    raise RuntimeError('while-handling')", "RuntimeError", "while-handling"),
    ("singleton", "raise SINGLETON_ERR", "LookupError", "one-object"),
    ("from_none", "try:\n    junk = 1 / 0\nexcept ZeroDivisionError:\n    raise RuntimeError('no-context') from None", "RuntimeError", "no-context"),
]
FORMS = ["plain", "multiline", "method", "comp", "decorated", "module"]  # + "compiled", only as the last level
ENTRIES = ["service", "event", "state", "startup", "state_expr", "active_expr", "event_filter", "task", "callback", "wait_expr", "service_reload", "load"]

HELPER = '''
def hcall(fn, x):
    y = x
    return fn(y)
'''

OTHER_FILE = '''
omarks = []
@event_trigger("ev_other")
def other(**kw):
    omarks.append("other-ran")
'''


def _ind(text, n=1):
    return "\n".join(("    " * n) + ln if ln else ln for ln in text.split("\n"))


def build(chain_forms, fault_level, fault_slot, fault_stmt, entry, pyscript):
    """Returns (source, entry description).  Levels are f1..fk; the fault sits in level `fault_level` (1-based), slot
    'A' (before the call) or 'B' (after it); it only fires when x == 0."""
    k = len(chain_forms)
    lines = ["class UserErr(Exception):", "    pass", "SINGLETON_ERR = LookupError('one-object')", "marks = []", "import helper", "",
             "def wrap(fn):", "    def inner(*a, **kw):", "        r = fn(*a, **kw)", "        return r", "    return inner", "",
             "class Holder:", "    pass", "holder = Holder()", ""]
    # define levels bottom-up so that every name exists when its caller is defined
    for j in range(k, 0, -1):
        form = chain_forms[j - 1]
        nxt = f"f{j + 1}" if j < k else None
        body = []
        if fault_level == j and fault_slot == "A":
            body.append("if x == 0:\n" + _ind(fault_stmt))
        else:
            body.append(f"a{j} = x + {j}")
        if nxt:
            call_form = chain_forms[j]  # the form describes how level j+1 is *called*
            if call_form == "plain":
                body.append(f"r = {nxt}(x)")
            elif call_form == "multiline":
                body.append(f"r = {nxt}(\n    x,\n)")
            elif call_form == "method":
                body.append(f"r = holder.m{j + 1}(x)")
            elif call_form == "comp":
                body.append(f"r = [{nxt}(i) for i in [x]][0]")
            elif call_form == "decorated":
                body.append(f"r = {nxt}(x)")
            elif call_form == "module":
                body.append(f"r = helper.hcall({nxt}, x)")
            elif call_form == "compiled":
                body.append(f"r = {nxt}(x)")
        else:
            body.append("r = x")
        if fault_level == j and fault_slot == "B":
            body.append("if x == 0:\n" + _ind(fault_stmt))
        else:
            body.append(f"b{j} = r")
        body.append("return r")
        deco = "@wrap\n" if form == "decorated" else ""
        if form == "compiled":
            # a natively compiled leaf whose frame keeps running after the fault (clean-up, then re-raise): the reported line is
            # where the exception was raised, not where the frame got to
            body = ["try:", _ind("\n".join(body[:-1])), "except Exception:", "    cleanup_a = 1", "    cleanup_b = 2", "    raise", "return r"]
            deco = "@pyscript_compile\n"
        lines.append(f"{deco}def f{j}(x):\n" + _ind("\n".join(body)))
        if form == "method":
            lines.append(f"def _m{j}(self, x):\n    return f{j}(x)\nHolder.m{j} = _m{j}" if False else
                         f"class Holder{j}(Holder):\n    def m{j}(self, x):\n        return f{j}(x)\nholder = Holder{j}() if True else holder")
        lines.append("")
    # the method holder must expose every m<j>: build one class with all methods at the end
    meths = [j for j in range(1, k + 1) if chain_forms[j - 1] == "method"]
    if meths:
        cls = ["class AllMethods:"]
        for j in meths:
            cls.append(f"    def m{j}(self, x):\n        return f{j}(x)")
        lines.append("\n".join(cls))
        lines.append("holder = AllMethods()")
        lines.append("")
    src = "\n".join(lines) + "\n"
    src = re.sub(r"class Holder\d+\(Holder\):\n    def m\d+\(self, x\):\n        return f\d+\(x\)\nholder = Holder\d+\(\) if True else holder\n", "", src)
    # entry point
    if entry == "load":
        src += "@service\ndef early_svc():\n    pass\n" if pyscript else "#@service\ndef early_svc():\n    pass\n"
        src += "f1(0)\nmarks.append('loaded')\n"
    elif not pyscript:
        # the reference gets the same text with the decorator lines commented out, so line numbers coincide
        return re.sub(r"(?m)^@(service|event_trigger|state_trigger|time_trigger|state_active)\b", r"#@\1",
                      build(chain_forms, fault_level, fault_slot, fault_stmt, entry, True))
    elif entry == "service":
        src += "@service\ndef entry(x=0):\n    marks.append(('run', x))\n    f1(x)\n    marks.append(('done', x))\n"
    elif entry == "event":
        src += "@event_trigger('ev_go')\ndef entry(x=0, **kw):\n    marks.append(('run', x))\n    f1(x)\n    marks.append(('done', x))\n"
    elif entry == "state":
        src += "@state_trigger('pyscript.go')\ndef entry(value=None, **kw):\n    x = int(value)\n    marks.append(('run', x))\n    f1(x)\n    marks.append(('done', x))\n"
    elif entry == "startup":
        src += "@time_trigger('startup')\n@event_trigger('ev_go')\ndef entry(x=0, **kw):\n    marks.append(('run', x))\n    f1(x)\n    marks.append(('done', x))\n"
    elif entry == "state_expr":
        src += "@state_trigger('f1(int(pyscript.go)) >= 0')\ndef entry(value=None, **kw):\n    marks.append(('done', int(value)))\n"
    elif entry == "active_expr":
        src += "@event_trigger('ev_go')\n@state_active('f1(int(pyscript.go)) >= 0')\ndef entry(**kw):\n    marks.append(('done', int(pyscript.go)))\n"
    elif entry == "event_filter":
        src += "@event_trigger('ev_go', 'f1(x) >= 0')\ndef entry(x=0, **kw):\n    marks.append(('done', x))\n"
    elif entry == "task":
        src += "def body(x):\n    marks.append(('run', x))\n    f1(x)\n    marks.append(('done', x))\n@service\ndef entry(x=0):\n    t = task.create(body, x)\n    task.wait({t})\n"
    elif entry == "callback":
        src += ("def cb(x):\n    marks.append(('run', x))\n    f1(x)\n    marks.append(('done', x))\ndef quick():\n    return 1\n"
                "def cb2(x):\n    marks.append(('cb2', x))\n"
                "@service\ndef entry(x=0):\n    t = task.create(quick)\n    task.add_done_callback(t, cb, x)\n    task.add_done_callback(t, cb2, x)\n"
                "    task.wait({t})\n    task.sleep(0)\n")
    elif entry == "service_reload":
        # the call is still running (waiting) when its file is reloaded; it fails afterwards
        src += ("@service\ndef entry(x=0):\n    marks.append(('run', x))\n    task.wait_until(event_trigger='go_on', timeout=30)\n"
                "    f1(x)\n    marks.append(('done', x))\n")
    elif entry == "wait_expr":
        src += ("@service\ndef entry(x=0):\n    marks.append(('run', x))\n"
                "    r = task.wait_until(state_trigger='f1(int(pyscript.go)) >= 0', timeout=5)\n"
                "    marks.append(('done', int(pyscript.go)))\n")
    return src


SCRIPT_FUNCS = re.compile(r"^(f\d+|inner|m\d+|hcall|entry|body|cb|<module>)$")


def reference_frames(src, helper_path, script_path, entry):
    """CPython's (file, function, line) triples for the same source executed natively."""
    import sys
    import types

    helper = types.ModuleType("helper")
    exec(compile(HELPER, helper_path, "exec"), helper.__dict__)  # noqa: S102
    sys.modules["helper"] = helper
    g = {"__name__": "hello", "task": types.SimpleNamespace(wait_until=lambda **kw: None), "pyscript_compile": lambda fn: fn}
    exc = None
    try:
        try:
            exec(compile(src, script_path, "exec"), g)  # noqa: S102
            if entry != "load":
                if entry in ("task",):
                    g["body"](0)
                elif entry == "callback":
                    g["cb"](0)
                elif entry in ("state_expr", "active_expr", "event_filter", "wait_expr"):
                    g["f1"](0)
                elif entry == "state":
                    g["entry"](value="0")
                else:
                    g["entry"](0)
        except Exception as e:  # noqa
            exc = e
    finally:
        sys.modules.pop("helper", None)
    if exc is None:
        return None, None
    frames = [(os.path.basename(f.filename), f.name, f.lineno) for f in traceback.extract_tb(exc.__traceback__)
              if f.filename in (helper_path, script_path)]
    global LAST_REF_SECTIONS
    LAST_REF_SECTIONS = len(SEP_RE.findall("".join(traceback.format_exception(exc))))
    return frames, type(exc).__name__


SEP_RE = re.compile(r"The above exception was the direct cause of the following exception:|During handling of the above exception, another exception occurred:")
LAST_REF_SECTIONS = 0
FRAME_RE = re.compile(r'File "([^"]+)", line (\d+), in ([^\n]+)')


def run_case(case, legacy):
    import logging

    from mc.world import World

    forms, level, slot, fkind, entry = case
    fault = [f for f in FAULTS if f[0] == fkind][0]
    src_ps = build(forms, level, slot, fault[1], entry, True)
    src_py = build(forms, level, slot, fault[1], entry, False)
    w = World({"hello.py": "marks = []\n" if entry == "load" else src_ps, "other.py": OTHER_FILE, "modules/helper.py": HELPER},
              legacy=legacy, capture_logs=True, log_level=logging.WARNING)
    try:
        script_path = os.path.join(w.psdir, "hello.py")
        helper_path = os.path.join(w.psdir, "modules/helper.py")
        w.hass.states.async_set("pyscript.go", "5")
        w.settle()
        n0 = len(w.logs.records)
        raised_into_ha = None
        old_marks = []

        def occurrence(x):
            nonlocal raised_into_ha
            try:
                if entry in ("service", "task", "callback"):
                    w.call_service("pyscript", "entry", {"x": x})
                elif entry == "service_reload":
                    t = w.start_service("pyscript", "entry", {"x": x})
                    w.settle()
                    old_marks.append(w.g()["marks"])  # the running call keeps writing to the list of the context it was defined in
                    w.write("hello.py", src_ps + f"# reloaded {x}\n")
                    w.reload()
                    w.settle()
                    w.fire("go_on", {})
                    w.settle()
                    w.advance(1)
                    if not t.done():
                        raised_into_ha = "service call never returned"
                    elif t.exception() is not None:
                        raised_into_ha = repr(t.exception())[:200]
                elif entry == "wait_expr":
                    w.hass.states.async_set("pyscript.go", "-1")  # the expression is false at the call: the function waits
                    w.settle()
                    t = w.start_service("pyscript", "entry", {"x": x})
                    w.settle()
                    w.hass.states.async_set("pyscript.go", str(x), {"n": len(w.logs.records)})
                    w.settle()
                    w.advance(6)
                    if not t.done():
                        raised_into_ha = "service call never returned"
                    elif t.exception() is not None:
                        raised_into_ha = repr(t.exception())[:200]
                elif entry in ("event", "startup", "event_filter"):
                    w.fire("ev_go", {"x": x})
                elif entry in ("state", "state_expr"):
                    w.hass.states.async_set("pyscript.go", str(x), {"n": len(w.logs.records)})
                elif entry == "active_expr":
                    w.hass.states.async_set("pyscript.go", str(x))
                    w.settle()
                    w.fire("ev_go", {})
            except Exception as e:  # noqa
                raised_into_ha = repr(e)[:200]
            w.settle()
            w.advance(1)

        if entry == "load":
            w.write("hello.py", src_ps)
            try:
                w.reload()
            except Exception as e:  # noqa
                raised_into_ha = repr(e)[:200]
            w.settle()
        elif entry == "startup":
            # the startup run happened at load with the default x=0: it already faulted; records are in the log
            n0 = 0
        else:
            occurrence(0)
        recs = [r for r in w.logs.records[n0:] if r[1] == "ERROR"]
        ref_frames, ref_exc = reference_frames(src_py, helper_path, script_path, entry)
        obs = {"records": [(r[0], r[2][:1500]) for r in recs]}
        if ref_frames is None:
            return {"kind": "harness-reference-did-not-raise"}, obs
        # (1) exactly one report, on the script's logger
        mine = [r for r in recs if fault[2] in r[2] or ref_exc in r[2]]
        if len(mine) == 0:
            return {"kind": "not-reported", "expected": ref_exc, "observed": [r[0] for r in recs]}, obs
        on_script = [r for r in mine if r[0].startswith("custom_components.pyscript.file.hello")]
        if len(on_script) != 1 or len(mine) != 1:
            return {"kind": "reported-" + ("elsewhere" if not on_script else "more-than-once"), "expected": "one record on custom_components.pyscript.file.hello*",
                    "observed": [r[0] for r in mine]}, obs
        msg = on_script[0][2]
        if fault[3] not in msg:
            return {"kind": "message-missing", "expected": fault[3], "observed": msg[-300:]}, obs
        # (1b) chained exceptions: as many sections as CPython prints for the same exception (none after 'raise ... from None')
        if len(SEP_RE.findall(msg)) != LAST_REF_SECTIONS:
            return {"kind": "exception-chain-sections", "expected": LAST_REF_SECTIONS, "observed": len(SEP_RE.findall(msg))}, obs
        # (2) attribution
        pending = None
        # chained exceptions are printed first: the frames of the reported exception follow the last separator
        main = re.split(r"(?:The above exception was the direct cause of the following exception:|During handling of the above exception, another exception occurred:)", msg)[-1]
        got = [(os.path.basename(f), name.strip(), int(ln)) for f, ln, name in FRAME_RE.findall(main) if f in (script_path, helper_path)]
        # module-level code is reported under the context name; expression snippets under "<context>.<func> @decorator()"
        got = [(f, "<module>" if name == "file.hello" else name, ln) for f, name, ln in got]
        # expression snippets (decorator arguments) are reported as line 1 of a pseudo function: drop frames that are not script functions
        got = [g for g in got if SCRIPT_FUNCS.match(g[1])]
        want = [f for f in ref_frames if SCRIPT_FUNCS.match(f[1])]
        if entry == "wait_expr":
            # the exception surfaces in the waiting function at its task.wait_until() line; the expression snippet is line 1 of a pseudo frame
            wl = [i + 1 for i, ln in enumerate(src_ps.split("\n")) if "task.wait_until(" in ln][0]
            want = [("hello.py", "entry", wl)] + want
            got = [g for g in got if g != ("hello.py", "entry", 1)]
        if got != want:
            kind = "traceback-frames"
            if got == [f for f in want if f[1] != "inner"]:
                kind = "decorator-wrapper-frame-missing"
                pending = {"kind": kind, "expected": want, "observed": got}  # keep checking containment
            else:
                return {"kind": kind, "expected": want, "observed": got}, obs
        # (3) containment
        if raised_into_ha:
            return {"kind": "raised-into-home-assistant", "observed": raised_into_ha}, obs
        if w.errors:
            return {"kind": "loop-exception-handler", "observed": repr(w.errors[0])[:300]}, obs
        if entry == "load":
            if w.ctx("file.hello") is not None:
                return {"kind": "faulty-file-loaded"}, obs
            if w.hass.services.has_service("pyscript", "early_svc"):
                return {"kind": "service-of-unloaded-file-registered"}, obs
            if w.ctx("file.other") is None:
                return {"kind": "other-file-not-loaded"}, obs
        else:
            occurrence(1)
            marks = list(w.g()["marks"]) + [m for lst in old_marks for m in lst]
            if ("done", 1) not in marks:
                return {"kind": "trigger-dead-after-fault", "observed": marks}, obs
            if entry == "callback" and (("cb2", 0) not in marks or ("cb2", 1) not in marks):
                return {"kind": "later-done-callback-skipped", "observed": marks}, obs
            if entry != "startup":
                # the same fault a second time is a second report (also when it is the very same exception object)
                n1 = len(w.logs.records)
                occurrence(0)
                again = [r for r in w.logs.records[n1:] if r[1] == "ERROR" and (fault[2] in r[2] or ref_exc in r[2])]
                if len(again) != 1:
                    return {"kind": "repeated-fault-not-reported-once", "expected": 1, "observed": [r[0] for r in again]}, obs
        w.fire("ev_other", {})
        w.settle()
        if w.g("file.other") is None or "other-ran" not in w.g("file.other")["omarks"]:
            return {"kind": "other-function-disturbed"}, obs
        return pending, obs
    finally:
        w.close()


TRUTH_SRC = '''
marks = []
@state_trigger("Boom(int(pyscript.go))")
def on_state(**kw):
    marks.append(('state', int(pyscript.go)))
@event_trigger("ev_go", "Boom(x)")
def on_event(x=0, **kw):
    marks.append(('event', x))
@event_trigger("ev_act")
@state_active("Boom(int(pyscript.gate))")
def on_active(**kw):
    marks.append(('active', int(pyscript.gate)))
'''


class Boom:
    """A native object whose truth test fails for 0 (what numpy / pandas values do when their truth value is ambiguous)."""

    def __init__(self, x):
        self.x = x

    def __bool__(self):
        if self.x == 0:
            raise ValueError("truth-test-boom")
        return self.x > 0


def run_truthtest(which, legacy):
    """The VALUE of a trigger / filter / active expression evaluates fine, but its truth test raises: reported once on the script's
    logger, nothing escapes into Home Assistant, the trigger keeps serving."""
    import logging

    from mc.world import World

    w = World({"hello.py": TRUTH_SRC, "other.py": OTHER_FILE}, legacy=legacy, capture_logs=True, log_level=logging.WARNING)
    try:
        w.hass.states.async_set("pyscript.go", "5")
        w.hass.states.async_set("pyscript.gate", "5")
        w.settle()
        w.g()["Boom"] = Boom
        n0 = len(w.logs.records)
        raised = None

        def occ(x):
            nonlocal raised
            try:
                if which == "state":
                    w.hass.states.async_set("pyscript.go", str(x), {"n": len(w.logs.records)})
                elif which == "event":
                    w.fire("ev_go", {"x": x})
                else:
                    w.hass.states.async_set("pyscript.gate", str(x))
                    w.settle()
                    w.fire("ev_act", {})
            except Exception as e:  # noqa
                raised = repr(e)[:200]
            w.settle()
            w.advance(1)

        occ(0)
        recs = [r for r in w.logs.records[n0:] if r[1] == "ERROR" and "truth-test-boom" in r[2]]
        if len(recs) != 1 or not recs[0][0].startswith("custom_components.pyscript.file.hello"):
            return {"kind": "truth-test-error-not-reported-once", "expected": "one ERROR record on custom_components.pyscript.file.hello*",
                    "observed": [(r[0], r[2][:80]) for r in w.logs.records[n0:] if r[1] == "ERROR"]}
        if raised or w.errors:
            return {"kind": "truth-test-error-escaped", "observed": raised or repr(w.errors[0])[:300]}
        occ(1)
        if (which, 1) not in [tuple(m) for m in w.g()["marks"]]:
            return {"kind": "trigger-dead-after-fault", "observed": list(w.g()["marks"])}
        w.fire("ev_other", {})
        w.settle()
        if "other-ran" not in w.g("file.other")["omarks"]:
            return {"kind": "other-function-disturbed"}
        return None
    finally:
        w.close()


def cases(tier):
    out = []
    faults = [f[0] for f in FAULTS]
    if tier == "quick":
        chains = [("plain",), ("plain", "multiline", "method"), ("decorated", "comp", "module"), ("method", "decorated", "plain", "module", "comp"),
                  ("plain", "compiled"), ("compiled",)]
    else:
        chains = [("plain",)] + [tuple(p) for p in itertools.permutations(FORMS, 3)][::4] + \
                 [("plain", "compiled"), ("compiled",), ("method", "module", "compiled"),
                  ("plain", "multiline", "method", "comp", "decorated"), ("module", "decorated", "comp", "method", "multiline"),
                  ("method", "decorated", "plain", "module", "comp")]
    for forms in chains:
        k = len(forms)
        for level in range(1, k + 1):
            for slot in ("A", "B"):
                for fi, fk in enumerate(faults):
                    # every fault kind at every position; entries rotate so that every (entry, fault kind) pair occurs
                    ents = ENTRIES if (tier == "thorough" or k == 1) else [ENTRIES[(fi + level + (slot == "B")) % len(ENTRIES)], "service"]
                    for entry in ents:
                        out.append((forms, level, slot, fk, entry))
    return out


def bounds(tier):
    return {"cases": len(cases(tier)), "fault_kinds": len(FAULTS), "entries": ENTRIES, "max_depth": 5}


def plan(tier, seed):
    n = 64 if tier == "thorough" else 32
    return [(tier, legacy, k, n) for legacy in (False, True) for k in range(n)] + [("truth", legacy) for legacy in (False, True)]


def run_shard(shard):
    res = Shard()
    if shard[0] == "truth":
        legacy = shard[1]
        for which in ("state", "event", "active"):
            fail = run_truthtest(which, legacy)
            c = {"truth": which, "legacy": legacy}
            res.case(("truth", which, fail["kind"] if fail else "ok"), nontrivial=True, transitions=3, config=("legacy" if legacy else "new") + "/truth", sample=c)
            if fail:
                res.fail(f"{'legacy' if legacy else 'new'}|truth-{which}|{fail['kind']}", c, expected=fail.get("expected"), observed=fail.get("observed"))
        return res
    tier, legacy, k, n = shard
    for i, case in enumerate(cases(tier)):
        if i % n != k:
            continue
        fail, obs = run_case(case, legacy)
        c = {"case": [list(case[0])] + list(case[1:]), "legacy": legacy}
        res.case((case, fail["kind"] if fail else "ok"), nontrivial=True, transitions=len(case[0]) + 2,
                 config=("legacy" if legacy else "new") + "/" + case[4], sample=c)
        if fail:
            res.fail(f"{'legacy' if legacy else 'new'}|{case[4]}|{fail['kind']}", c, expected=fail.get("expected"), observed=fail.get("observed"),
                     detail={"fail": fail, "records": obs.get("records")})
    return res


def replay(case):
    if "truth" in case:
        fail = run_truthtest(case["truth"], case["legacy"])
        return {"ok": fail is None, "failure": fail}
    c = case["case"]
    fail, obs = run_case((tuple(c[0]), c[1], c[2], c[3], c[4]), case["legacy"])
    return {"ok": fail is None, "failure": fail, "records": obs.get("records")}
