"""C19 — Jupyter kernel: lossless framing, authenticated requests, correlated replies (E3 + E4 + E1)."""

import hashlib
import hmac
import itertools
import json
import struct

from mc.result import Shard

PID = "C19"
LEVEL = "model_checking"
RULE = (
    "(a) framing: every frame list of 1-3 frames with lengths from the boundary set {0, 1, 254, 255, 256, 257, 65535, 65536} "
    "(quick: {0, 1, 255, 256, 300}) and four content patterns, written by send / send_multipart / send_cmd of one ZmqSocket "
    "into an in-memory writer and read back by recv / recv_multipart of another through an asyncio.StreamReader fed in "
    "fragments: EVERY fragmentation of byte streams up to 14 bytes, every single cut point, and every pair of cut points "
    "within 12 bytes of a frame header, for longer ones; an independent ZMTP encoder/decoder in the harness cross-checks "
    "the wire bytes. (b) authentication: for a valid signed execute_request every single-bit flip of the signature and of "
    "each signed frame, frames dropped / duplicated / swapped, damaged delimiter, wrong key, truncated signature: the "
    "cell's side effect never happens and no byte is written to the shell stream; flips confined to the identity frames "
    "are answered and echo the flipped identity. (c) sessions: every request sequence up to the tier's length over "
    "{execute ok / assignment / raising / print+log / store_history False, complete, is_complete x3, kernel_info, "
    "comm_info, history, unknown type, forged request} with 1-2 iopub subscribers: exactly one correctly signed reply per "
    "valid request, routed to its identities with the request header as parent, iopub busy..idle bracketing with the same "
    "parent, execute_input / execute_result / error / stream in cell order, execution_count advancing exactly for stored "
    "cells, side effects visible in the session's global context. distinct = distinct (case class, outcome); non-trivial "
    "= more than one frame / a rejected message / a reply carrying a result or error"
)
ASSUMPTIONS = [
    "the seam is the StreamReader / writer objects handed to the kernel's *_listen coroutines (no TCP)",
    "uuid and timestamps in reply headers are not compared",
]
MAXTASKS = 30
KEY = "secret-key"
DELIM = b"<IDS|MSG>"


# ---- independent ZMTP codec ---------------------------------------------------------------------
def enc_frame(body, more=False, cmd=False):
    fl = (1 if more else 0) | (4 if cmd else 0)
    if len(body) > 255:
        return bytes([fl | 2]) + struct.pack(">Q", len(body)) + body
    return bytes([fl, len(body)]) + body


def dec_frames(buf):
    """-> list of ('msg', [frames]) / ('cmd', body)."""
    i, out, cur = 0, [], []
    while i < len(buf):
        fl = buf[i]
        i += 1
        if fl & 2:
            n = struct.unpack(">Q", buf[i:i + 8])[0]
            i += 8
        else:
            n = buf[i]
            i += 1
        body = bytes(buf[i:i + n])
        if i + n > len(buf):
            raise ValueError("truncated")
        i += n
        if fl & 4:
            out.append(("cmd", body))
            continue
        cur.append(body)
        if not fl & 1:
            out.append(("msg", cur))
            cur = []
    if cur:
        raise ValueError("dangling MORE")
    return out


GREETING = b"\xff" + b"\x00" * 8 + b"\x7f" + b"\x03" + b"\x00" + b"NULL" + b"\x00" * 16 + b"\x00" + b"\x00" * 31
READY = enc_frame(b"\x05READY" + b"\x0bSocket-Type" + struct.pack(">L", 6) + b"DEALER", cmd=True)


class MemWriter:
    def __init__(self):
        self.buf = bytearray()
        self.closed = False

    def write(self, b):
        self.buf += b

    async def drain(self):
        pass

    def close(self):
        self.closed = True


def pattern(kind, n):
    if kind == "zero":
        return bytes(n)
    if kind == "ff":
        return b"\xff" * n
    if kind == "count":
        return bytes((i * 7 + 1) & 0xFF for i in range(n))
    return bytes([0x01, 0x00, 0x02, 0x04, 0x06, 0xFF, 0x03][i % 7] for i in range(n))  # looks like flag/length octets


# ---- (a) framing ----------------------------------------------------------------------------------
def fragmentations(n, header_offsets, exhaustive_limit=14):
    """Cut-point sets for a stream of n bytes."""
    if n <= exhaustive_limit:
        for mask in range(1 << max(0, n - 1)):
            yield tuple(i + 1 for i in range(n - 1) if mask >> i & 1)
        return
    yield ()
    for c in range(1, n):
        yield (c,)
    near = sorted({o + d for o in header_offsets for d in range(0, 12) if 0 < o + d < n} | {n - 1, n - 2})
    for a, b in itertools.combinations(near, 2):
        yield (a, b)


def read_back(stream, cuts, mode, nmsgs):
    """Feed `stream` in fragments to a ZmqSocket reader; returns the received messages."""
    import asyncio

    from custom_components.pyscript.jupyter_kernel import ZmqSocket
    from mc.vloop import VirtualLoop

    loop = VirtualLoop()
    loop.install()
    try:
        reader = asyncio.StreamReader()
        sock = ZmqSocket(reader, MemWriter(), "ROUTER")
        got = []

        async def rx():
            for _ in range(nmsgs):
                got.append(await (sock.recv_multipart() if mode == "multipart" else sock.recv()))

        t = loop.create_task(rx())
        prev = 0
        for c in list(cuts) + [len(stream)]:
            reader.feed_data(stream[prev:c])
            prev = c
            loop.settle()
        loop.settle()
        if not t.done():
            t.cancel()
            loop.settle()
            return "incomplete", got
        if t.exception():
            return type(t.exception()).__name__, got
        return "ok", got
    finally:
        loop.uninstall()
        loop.close()


def write_frames(frames, mode):
    import asyncio

    from custom_components.pyscript.jupyter_kernel import ZmqSocket
    from mc.vloop import VirtualLoop

    loop = VirtualLoop()
    loop.install()
    try:
        w = MemWriter()
        sock = ZmqSocket(asyncio.StreamReader(), w, "ROUTER")
        if mode == "multipart":
            loop.run_coro(sock.send_multipart(list(frames)))
        elif mode == "single":
            for f in frames:
                loop.run_coro(sock.send(f))
        else:  # a command frame between two messages
            loop.run_coro(sock.send_multipart(list(frames)))
            loop.run_coro(sock.send_cmd("PING", [["Key", "v" * (len(frames[0]) % 300)]]))
            loop.run_coro(sock.send_multipart(list(frames)))
        return bytes(w.buf)
    finally:
        loop.uninstall()
        loop.close()


def framing_cases(tier):
    lens = [0, 1, 254, 255, 256, 257, 65535, 65536] if tier == "thorough" else [0, 1, 255, 256, 300]
    pats = ["zero", "ff", "count", "flags"] if tier == "thorough" else ["count", "flags"]
    for nfr in (1, 2, 3):
        for ls in itertools.product(lens, repeat=nfr):
            if tier == "thorough" and nfr == 3 and sum(1 for x in ls if x > 60000) > 1:
                continue
            if sum(ls) > 140000:
                continue
            for pat in pats:
                for mode in ("multipart", "single", "cmd"):
                    if mode != "multipart" and nfr == 3:
                        continue
                    yield (ls, pat, mode)


def check_framing(res, case):
    ls, pat, mode = case
    frames = [pattern(pat, n) for n in ls]
    stream = write_frames(frames, mode)
    # wire bytes cross-check with the independent decoder
    try:
        dec = dec_frames(stream)
    except Exception as exc:  # noqa
        res.fail(f"framing|wire-undecodable|{mode}", {"engine": "framing", "case": [list(ls), pat, mode]}, expected="decodable", observed=repr(exc))
        return
    msgs = [m for k, m in dec if k == "msg"]
    if mode == "multipart":
        want_wire = [frames]
        want_rx = [frames]
        nm = 1
    elif mode == "single":
        want_wire = [[b"", f] for f in frames]
        want_rx = frames
        nm = len(frames)
    else:
        want_wire = [frames, frames]
        want_rx = [frames, frames]
        nm = 2
    sample = {"engine": "framing", "case": [list(ls), pat, mode]}
    if msgs != want_wire:
        res.fail(f"framing|wire-bytes|{mode}", sample, expected=[[len(f) for f in m] for m in want_wire], observed=[[len(f) for f in m] for m in msgs])
        return
    # header offsets for the cut-point choice
    offs, i = [], 0
    while i < len(stream):
        offs.append(i)
        fl = stream[i]
        n = struct.unpack(">Q", stream[i + 1:i + 9])[0] if fl & 2 else stream[i + 1]
        i += (9 if fl & 2 else 2) + n
    rx_mode = "single" if mode == "single" else "multipart"
    nfrag = 0
    big = len(stream) > 3000
    for cuts in fragmentations(len(stream), offs):
        if big and len(cuts) == 1 and not any(abs(cuts[0] - o) < 24 for o in offs) and cuts[0] % 997 != 0 and cuts[0] < len(stream) - 3:
            continue  # long payloads: single cuts at every header neighbourhood + a stride through the payload
        nfrag += 1
        status, got = read_back(stream, cuts, rx_mode, nm)
        res.case(("framing", mode, tuple(min(x, 300) for x in ls), len(cuts)), nontrivial=len(ls) > 1 or len(cuts) > 0, config="framing/" + mode,
                 sample={"engine": "framing", "case": [list(ls), pat, mode], "cuts": list(cuts)[:6]})
        if status != "ok" or got != want_rx:
            res.fail(f"framing|roundtrip|{mode}|{status}", {"engine": "framing", "case": [list(ls), pat, mode], "cuts": list(cuts)},
                     expected=[len(f) if isinstance(f, bytes) else [len(x) for x in f] for f in want_rx],
                     observed=(status, [len(f) if isinstance(f, bytes) else [len(x) for x in f] for f in got]))
            return


# ---- kernel session harness -------------------------------------------------------------------------
def sign(frames, key=KEY):
    h = hmac.new(key.encode(), digestmod=hashlib.sha256)
    for f in frames:
        h.update(f)
    return h.hexdigest().encode()


def request(msg_type, content, mid, idents=(b"client-1",), key=KEY):
    hdr = {"msg_id": mid, "username": "u", "session": "sess", "msg_type": msg_type, "version": "5.3"}
    fr = [json.dumps(x).encode() for x in (hdr, {}, {}, content)]
    return list(idents) + [DELIM, sign(fr, key)] + fr, hdr


def wire(parts):
    return b"".join(enc_frame(p, more=(i < len(parts) - 1)) for i, p in enumerate(parts))


class Session:
    def __init__(self, w, n_iopub=1):
        import asyncio

        from custom_components.pyscript.eval import AstEval
        from custom_components.pyscript.function import Function
        from custom_components.pyscript.jupyter_kernel import Kernel

        self.w = w
        self.name = w.new_session()
        gctx = w.ctx(self.name)
        actx = AstEval(self.name, gctx)
        Function.install_ast_funcs(actx)
        cfg = {"key": KEY, "signature_scheme": "hmac-sha256", "no_connect_timeout": 30}
        self.k = k = Kernel(cfg, actx, gctx, self.name)
        actx.add_logger_handler(k.console)
        self.tasks = [w.loop.create_task(k.housekeep_run())]
        k.tasks["housekeep"] = {self.tasks[0]}
        k.iopub_server = True
        self.iopubs = []
        for _ in range(n_iopub):
            r, wr = asyncio.StreamReader(), MemWriter()
            r.feed_data(GREETING + READY)
            self.tasks.append(w.loop.create_task(k.iopub_listen(r, wr)))
            self.iopubs.append(wr)
        self.shell_r, self.shell_w = asyncio.StreamReader(), MemWriter()
        self.shell_r.feed_data(GREETING + READY)
        self.tasks.append(w.loop.create_task(k.shell_listen(self.shell_r, self.shell_w)))
        w.settle()
        self.shell_mark = len(self.shell_w.buf)
        self.io_mark = [len(x.buf) for x in self.iopubs]

    def send(self, parts):
        self.shell_r.feed_data(wire(parts))
        self.w.settle()

    def new_shell(self):
        out = dec_frames(bytes(self.shell_w.buf[self.shell_mark:]))
        self.shell_mark = len(self.shell_w.buf)
        return [m for kind, m in out if kind == "msg"]

    def new_iopub(self, i=0):
        out = dec_frames(bytes(self.iopubs[i].buf[self.io_mark[i]:]))
        self.io_mark[i] = len(self.iopubs[i].buf)
        return [m for kind, m in out if kind == "msg"]

    def close(self):
        for t in self.tasks:
            t.cancel()
        self.w.settle()
        try:
            self.k.ast_ctx.remove_logger_handler(self.k.console)
        except Exception:  # noqa
            pass


def parse_msg(parts):
    i = parts.index(DELIM)
    idents, sig, fr = parts[:i], parts[i + 1], parts[i + 2:]
    dec = [json.loads(f.decode()) for f in fr[:4]]
    return {"idents": idents, "sig_ok": sig == sign(fr[:4]), "header": dec[0], "parent": dec[1], "meta": dec[2], "content": dec[3]}


# ---- (b) authentication -----------------------------------------------------------------------------
def corruptions(tier):
    parts, hdr = request("execute_request", {"code": "forged = 1", "store_history": True}, "m-forged")
    n_id = 1
    out = []
    # single-bit flips in the signature and the four signed frames
    for fi in range(n_id + 1, len(parts)):
        nbits = len(parts[fi]) * 8
        step = 1 if tier == "thorough" else 3
        for bit in range(0, nbits, step):
            out.append(("flip", fi, bit))
    for fi in range(n_id + 1, len(parts)):
        out.append(("drop", fi, 0))
        out.append(("dup", fi, 0))
    for a, b in itertools.combinations(range(n_id + 2, len(parts)), 2):
        if parts[a] != parts[b]:  # swapping two identical frames is no corruption
            out.append(("swap", a, b))
    out += [("delim", 0, 0), ("wrongkey", 0, 0), ("truncsig", 0, 0), ("emptysig", 0, 0), ("idflip", 0, 3)]
    return out


def apply_corruption(c):
    parts, hdr = request("execute_request", {"code": "forged = 1", "store_history": True}, "m-forged")
    kind, a, b = c
    p = [bytes(x) for x in parts]
    if kind == "flip":
        ba = bytearray(p[a])
        ba[b // 8] ^= 1 << (b % 8)
        p[a] = bytes(ba)
    elif kind == "drop":
        del p[a]
    elif kind == "dup":
        p.insert(a, p[a])
    elif kind == "swap":
        p[a], p[b] = p[b], p[a]
    elif kind == "delim":
        p[1] = b"<IDS|MSX>"
    elif kind == "wrongkey":
        p, hdr = request("execute_request", {"code": "forged = 1", "store_history": True}, "m-forged", key="other-key")
    elif kind == "truncsig":
        p[2] = p[2][:-1]
    elif kind == "emptysig":
        p[2] = b""
    elif kind == "idflip":
        ba = bytearray(p[0])
        ba[0] ^= 1 << b
        p[0] = bytes(ba)
    return p, hdr


def check_auth(res, w, c):
    s = Session(w)
    try:
        p, hdr = apply_corruption(c)
        s.send(p)
        shell = s.new_shell()
        executed = "forged" in s.k.global_ctx.global_sym_table
        sample = {"engine": "auth", "corruption": list(c)}
        if c[0] == "idflip":
            # identities are not signed: the request is valid, the reply must go to the (flipped) identity
            ok = len(shell) == 1 and parse_msg(shell[0])["idents"] == [p[0]] and executed
            res.case(("auth", "idflip", ok), nontrivial=True, config="auth", sample=sample)
            if not ok:
                res.fail("auth|identity-not-echoed", sample, expected="one reply to the flipped identity", observed=[len(shell), executed])
            return
        # a flip may leave the message valid only if it does not change the signed bytes (impossible): all must be rejected
        res.case(("auth", c[0], executed, len(shell)), nontrivial=True, config="auth", sample=sample)
        if executed:
            res.fail(f"auth|forged-request-executed|{c[0]}", sample, expected="not executed", observed="cell ran")
        elif shell:
            res.fail(f"auth|forged-request-answered|{c[0]}", sample, expected="no reply", observed=[m[-1][:80] for m in shell])
    finally:
        s.close()


# ---- (c) sessions -----------------------------------------------------------------------------------
REQS = {
    "x_result": ("execute_request", {"code": "1 + 2", "store_history": True}),
    "x_assign": ("execute_request", {"code": "cellvar = 41", "store_history": True}),
    "x_raise": ("execute_request", {"code": "1 / 0", "store_history": True}),
    "x_print": ("execute_request", {"code": "print('out-a')\nprint('')\nlog.info('out-b')", "store_history": True}),
    "x_nohist": ("execute_request", {"code": "'quiet'", "store_history": False}),
    "x_raise_nohist": ("execute_request", {"code": "undefined_name_q", "store_history": False}),
    "complete": ("complete_request", {"code": "cellv", "cursor_pos": 5}),
    "isc_ok": ("is_complete_request", {"code": "x = 1"}),
    "isc_inc": ("is_complete_request", {"code": "def f():"}),
    "isc_bad": ("is_complete_request", {"code": "x = = 1"}),
    "kinfo": ("kernel_info_request", {}),
    "cinfo": ("comm_info_request", {}),
    "hist": ("history_request", {}),
    "unknown": ("no_such_request", {}),
    "forged": None,
}
REPLY_TYPE = {"execute_request": "execute_reply", "complete_request": "complete_reply", "is_complete_request": "is_complete_reply",
              "kernel_info_request": "kernel_info_reply", "comm_info_request": "comm_info_reply", "history_request": "history_reply"}
QUICK_REQS = ["x_result", "x_assign", "x_raise", "x_raise_nohist", "x_print", "x_nohist", "complete", "isc_inc", "kinfo", "unknown", "forged"]


def check_session(res, w, seq, n_iopub):
    s = Session(w, n_iopub)
    sample = {"engine": "session", "seq": list(seq), "iopub": n_iopub}
    try:
        count = 1
        outcome = []
        for i, name in enumerate(seq):
            idents = (b"client-%d" % (i % 2), b"route")
            if name == "forged":
                parts, hdr = request("execute_request", {"code": "forged = 1"}, f"m{i}", idents=idents, key="bad-key")
                s.send(parts)
                shell = s.new_shell()
                io = [s.new_iopub(j) for j in range(n_iopub)]
                if shell or "forged" in s.k.global_ctx.global_sym_table:
                    return fail(res, sample, "forged-request-served", None, [len(shell)])
                outcome.append("rejected")
                continue
            mtype, content = REQS[name]
            parts, hdr = request(mtype, content, f"m{i}", idents=idents)
            s.send(parts)
            shell = [parse_msg(m) for m in s.new_shell()]
            want_reply = REPLY_TYPE.get(mtype)
            if want_reply is None:
                if shell:
                    return fail(res, sample, "reply-to-unknown-type", [], [m["header"]["msg_type"] for m in shell])
            else:
                if len(shell) != 1:
                    return fail(res, sample, "reply-count", 1, len(shell), step=i, name=name)
                r = shell[0]
                if not r["sig_ok"]:
                    return fail(res, sample, "reply-signature", True, False, step=i)
                if r["idents"] != list(idents):
                    return fail(res, sample, "reply-identities", list(idents), r["idents"], step=i)
                if r["parent"] != hdr:
                    return fail(res, sample, "reply-parent-header", hdr, r["parent"], step=i)
                if r["header"]["msg_type"] != want_reply:
                    return fail(res, sample, "reply-type", want_reply, r["header"]["msg_type"], step=i)
            for j in range(n_iopub):
                io = [parse_msg(m) for m in s.new_iopub(j)]
                types = [(m["header"]["msg_type"], m["content"].get("execution_state")) for m in io]
                if not io or types[0] != ("status", "busy") or types[-1] != ("status", "idle"):
                    return fail(res, sample, "iopub-bracketing", "busy ... idle", types, step=i, name=name)
                if any(m["parent"] != hdr for m in io) or not all(m["sig_ok"] for m in io):
                    return fail(res, sample, "iopub-parent-or-signature", hdr, [m["parent"].get("msg_id") for m in io], step=i)
                inner = [t[0] for t in types[1:-1]]
                if mtype == "execute_request":
                    exp_inner = ["execute_input"]
                    if name in ("x_result", "x_nohist"):
                        exp_inner.append("execute_result")
                    if name in ("x_raise", "x_raise_nohist"):
                        exp_inner.append("error")
                    if name == "x_print":
                        exp_inner += ["stream", "stream", "stream"]
                    if inner != exp_inner:
                        return fail(res, sample, "iopub-sequence", exp_inner, inner, step=i, name=name)
                    ein = [m for m in io if m["header"]["msg_type"] == "execute_input"][0]
                    if ein["content"].get("execution_count") != count or ein["content"].get("code") != content["code"]:
                        return fail(res, sample, "execution-count", count, ein["content"], step=i, name=name)
                    if name == "x_result":
                        er = [m for m in io if m["header"]["msg_type"] == "execute_result"][0]
                        if er["content"]["data"] != {"text/plain": "3"} or er["content"]["execution_count"] != count:
                            return fail(res, sample, "execute-result", "3", er["content"], step=i)
                    if name in ("x_raise", "x_raise_nohist"):
                        em = [m for m in io if m["header"]["msg_type"] == "error"][0]
                        want_e = "ZeroDivisionError" if name == "x_raise" else "NameError"
                        if em["content"].get("ename") != want_e:
                            return fail(res, sample, "error-message", want_e, em["content"].get("ename"), step=i)
                    if name == "x_print":
                        texts = [m["content"]["text"] for m in io if m["header"]["msg_type"] == "stream"]
                        if texts != ["out-a\n", "\n", "out-b\n"]:
                            return fail(res, sample, "stdout-stream", ["out-a\n", "\n", "out-b\n"], texts, step=i)
                elif inner:
                    return fail(res, sample, "iopub-sequence", [], inner, step=i, name=name)
            if mtype == "execute_request":
                rc = shell[0]["content"]
                if rc.get("execution_count") != count:
                    return fail(res, sample, "reply-execution-count", count, rc.get("execution_count"), step=i, name=name)
                if (rc.get("status") == "error") != (name in ("x_raise", "x_raise_nohist")):
                    return fail(res, sample, "reply-status", name, rc.get("status"), step=i)
                if content.get("store_history", True):
                    count += 1
            if name == "x_assign" and s.k.global_ctx.global_sym_table.get("cellvar") != 41:
                return fail(res, sample, "side-effect-missing", 41, s.k.global_ctx.global_sym_table.get("cellvar"), step=i)
            if name == "complete" and "x_assign" in seq[:i]:
                if "cellvar" not in shell[0]["content"]["matches"]:
                    return fail(res, sample, "completion", "cellvar", shell[0]["content"]["matches"][:5], step=i)
            outcome.append((name, shell[0]["content"].get("status") if shell else None))
        res.case(("session", tuple(outcome), n_iopub), nontrivial=any(n.startswith("x_") or n == "forged" for n in seq), transitions=len(seq),
                 config="session", sample=sample)
        if w.errors:
            res.fail("session|loop-exception", sample, observed=repr(w.errors[0])[:200])
        return None
    finally:
        s.close()


def check_late_subscriber(res, w, cut, name):
    """A further iopub subscriber connects, but only the first `cut` bytes of its greeting have arrived while a request is
    served; the rest arrives afterwards.  Whatever the kernel wrote to that subscriber must still be a well-formed ZMTP stream:
    its own greeting and READY command first, and only whole, signed messages after that."""
    import asyncio

    s = Session(w, 1)
    sample = {"engine": "late", "cut": cut, "req": name}
    try:
        r, wr = asyncio.StreamReader(), MemWriter()
        hello = GREETING + READY
        r.feed_data(hello[:cut])
        s.tasks.append(w.loop.create_task(s.k.iopub_listen(r, wr)))
        w.settle()
        mtype, content = REQS[name]
        parts, hdr = request(mtype, content, "m-early")
        s.send(parts)
        r.feed_data(hello[cut:])
        w.settle()
        parts2, hdr2 = request(mtype, content, "m-late")
        s.send(parts2)
        buf = bytes(wr.buf)
        res.case(("late", cut, name, len(buf) > 0), nontrivial=True, transitions=3, config="late-subscriber", sample=sample)
        kind = None
        if len(buf) < len(GREETING) or buf[0] != 0xFF or buf[9] != 0x7F:
            kind, obs = "late-subscriber-stream-corrupt", buf[:24].hex()
        else:
            try:
                frames = dec_frames(buf[len(GREETING):])
            except Exception as e:  # noqa
                frames, kind, obs = None, "late-subscriber-stream-corrupt", repr(e)
            if frames is not None:
                if not frames or frames[0][0] != "cmd":
                    kind, obs = "late-subscriber-stream-corrupt", [f[0] for f in frames[:3]]
                else:
                    msgs = [parse_msg(m) for k2, m in frames if k2 == "msg"]
                    if not all(m["sig_ok"] for m in msgs):
                        kind, obs = "late-subscriber-bad-signature", len(msgs)
                    elif not any(m["parent"].get("msg_id") == "m-late" for m in msgs):
                        kind, obs = "late-subscriber-missed-later-request", [m["parent"].get("msg_id") for m in msgs]
        if kind:
            res.fail(f"late|{kind}", sample, expected="greeting, READY, then whole signed messages incl. those of the later request", observed=obs)
        if w.errors:
            res.fail("late|loop-exception", sample, observed=repr(w.errors[0])[:200])
    finally:
        s.close()


def fail(res, sample, kind, expected, observed, **kw):
    res.case(("session-fail", kind), nontrivial=True, config="session", sample=sample)
    feat = "after-forged" if "forged" in sample["seq"] else "plain"
    res.fail(f"session|{kind}|{feat}", sample, expected=expected, observed=observed, detail=kw)
    return kind


# ---- plan ------------------------------------------------------------------------------------------
def bounds(tier):
    return {"framing_cases": sum(1 for _ in framing_cases(tier)), "corruptions": len(corruptions(tier)),
            "session_length": 3 if tier == "thorough" else 2, "requests": len(REQS) if tier == "thorough" else len(QUICK_REQS)}


def plan(tier, seed):
    shards = [("framing", tier, k, 32) for k in range(32)]
    shards += [("auth", tier, k, 16) for k in range(16)]
    shards += [("session", tier, k, 16) for k in range(16)]
    return shards


def run_shard(shard):
    kind, tier, k, n = shard
    res = Shard()
    if kind == "framing":
        for i, case in enumerate(framing_cases(tier)):
            if i % n == k:
                check_framing(res, case)
        return res
    from mc.world import World

    import logging

    w = World({}, capture_logs=True, log_level=logging.DEBUG)  # print/log output travels through the logging system
    try:
        if kind == "auth":
            for i, c in enumerate(corruptions(tier)):
                if i % n == k:
                    check_auth(res, w, c)
        else:
            names = list(REQS) if tier == "thorough" else QUICK_REQS
            depth = 3 if tier == "thorough" else 2
            i = -1
            for d in range(1, depth + 1):
                for seq in itertools.product(names, repeat=d):
                    for n_iopub in (1, 2):
                        i += 1
                        if i % n == k:
                            check_session(res, w, seq, n_iopub)
            hello_len = len(GREETING + READY)
            cuts = range(0, hello_len) if tier == "thorough" else (0, 1, 9, 10, 11, 12, 32, 63, 64, 65, 66, hello_len - 1)
            for j, (cut, name) in enumerate(itertools.product(cuts, ("x_print", "x_result", "kinfo"))):
                if j % n == k:
                    check_late_subscriber(res, w, cut, name)
    finally:
        w.close()
    return res


def replay(case):
    res = Shard()
    if case["engine"] == "framing":
        ls, pat, mode = case["case"]
        check_framing(res, (tuple(ls), pat, mode))
    else:
        from mc.world import World

        import logging

        w = World({}, capture_logs=True, log_level=logging.DEBUG)
        try:
            if case["engine"] == "auth":
                check_auth(res, w, tuple(case["corruption"]))
            elif case["engine"] == "late":
                check_late_subscriber(res, w, case["cut"], case["req"])
            else:
                check_session(res, w, tuple(case["seq"]), case["iopub"])
        finally:
            w.close()
    return {"ok": not res.failures, "failures": [{"sig": f["sig"], "expected": repr(f["expected"])[:200], "observed": repr(f["observed"])[:300]} for f in res.failures[:3]]}
