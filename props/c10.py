"""C10 — reload loads exactly what the files and configuration now dictate (E1 + reference set model)."""

import itertools
import os

from mc.result import Shard
from ref import reloadmodel as RM

PID = "C10"
LEVEL = "model_checking"
RULE = (
    "file tree = the 12-file universe (two top-level scripts, scripts/s/x.py, app package app1 with a sibling, app files "
    "app2 and app11, modules m1, m11 and leaf, module package m2 with a sibling; app1/app11 and m1/m11 are string prefixes "
    "of each other) under each import graph of the tier's graph list (subsets of the 14-edge menu script->module, "
    "module->module, app->module, package->sibling, two-path diamond above a shared module with a further module below it); from the fully loaded "
    "state every single edit and every pair of edits from {modify, touch (mtime only, forwards and backwards), a changed global option, nothing, delete, '#'-rename of a file, "
    "'#'-rename of a package directory, remove / change an app's configuration} followed by pyscript.reload with "
    "global_ctx in {absent, '*', and context names of a script, a module, a package sibling, an app}; then a second "
    "round: one more edit and a default reload from the state reached. Oracle (ref/reloadmodel.py, written from the "
    "docs): the set of load events (context, source generation) emitted during the reload, the set of loaded contexts "
    "afterwards, every loaded script / app answering an event through its trigger (loaded means running), and for every "
    "context the model says is untouched the same context object with its counter variable intact. distinct = distinct (graph, edits, reload kind, outcome); non-trivial = at least one context was discarded"
)
ASSUMPTIONS = [
    "reload is driven through the pyscript.reload service (the seam the file watcher calls); the watcher thread's debounce is outside the closed system",
    "each file's preamble fires a 'loaded' event before its imports; an importer of a missing module fails to load",
]
MAXTASKS = 30

MENU = [("file.a", "modules.m1"), ("file.a", "modules.m2"), ("file.b", "modules.m1"), ("scripts.s.x", "modules.m2"),
        ("modules.m1", "modules.m2"), ("apps.app1", "modules.m1"), ("apps.app1", "apps.app1.sib"),
        ("modules.m2", "modules.m2.sib"), ("apps.app2", "modules.m2"),
        # 9..13: a second path to the shared module (diamond file.a -> m1 -> m2 <- m11 <- file.a), a module below it, prefix-named importers
        ("file.a", "modules.m11"), ("modules.m11", "modules.m2"), ("modules.m2", "modules.leaf"), ("apps.app11", "modules.m1"),
        ("file.b", "modules.m11"),
        # 14: a module reached only through a package's sub-file (file.a -> m2 -> m2.sib -> leaf)
        ("modules.m2.sib", "modules.leaf"),
        # 15: a script whose only link to the package is a dotted submodule import
        ("file.b", "modules.m2.sib")]


def graphs(tier):
    full = list(range(len(MENU)))
    base = [(), tuple(full), (0,), (0, 4), (0, 2, 4, 7), (5, 6), (1, 3, 8, 7), (0, 1, 4), (0, 4, 9, 10, 11), (5, 12, 2, 13, 10, 11), (1, 7, 14), (3, 8, 7, 14, 5), (15,), (15, 7, 14, 0)]
    if tier == "quick":
        return base
    more = [(i,) for i in full] + [(i, j) for i, j in itertools.combinations(full, 2) if (i + j) % 3 == 0] + \
           [tuple(x for x in full if x != i) for i in full]
    out = []
    for g in base + more:
        if g not in out:
            out.append(g)
    return out


def edges_of(g):
    e = {}
    for i in g:
        a, b = MENU[i]
        e.setdefault(a, []).append(b)
    return e


def src(ctx, gen, edges):
    lines = [f"GEN = {gen}", "counter = 0", "event.fire('loaded', ctx=pyscript.get_global_ctx(), gen=GEN)"]
    if ctx in RM.AUTOLOAD:
        # a loaded script or app is also RUNNING: its trigger answers
        lines += ["@event_trigger('ping')", "def pong(**kw):", "    event.fire('pong', ctx=pyscript.get_global_ctx(), gen=GEN)"]
    for imp in edges.get(ctx, []):
        if imp.startswith("modules.") and imp.count(".") == 1:
            lines.append(f"import {imp.split('.')[1]}")
        elif ctx.startswith(("file.", "scripts.")) and imp.count(".") == 2:
            lines.append(f"from {imp.split('.', 1)[1]} import GEN as SUBGEN")  # from m2.sib import ...
        else:
            lines.append("from . import sib")
    return "\n".join(lines) + "\n"


EDITS = [(k, p) for p in RM.FILES for k in ("MOD", "TOUCH", "DEL", "HASH")] + \
        [("TOUCHBACK", "a.py"), ("TOUCHBACK", "modules/m1.py"), ("TOUCHBACK", "apps/app1/sib.py"), ("OPTCHG", None), ("NOOP", None)] + \
        [("HASHDIR", "apps/app1"), ("HASHDIR", "modules/m2"), ("CONFDEL", "app1"), ("CONFCHG", "app1"), ("CONFDEL", "app2"), ("CONFCHG", "app2"), ("CONFCHG", "app11")]
RELOADS = [None, "*", "file.a", "modules.m1", "modules.m2.sib", "apps.app1", "file.nosuch"]


def apply_edit(w, m, edit, edges):
    kind, target = edit
    if kind == "NOOP":
        return True
    if kind == "OPTCHG":
        w.conf["allow_all_imports"] = not w.conf.get("allow_all_imports", False)
        m.options_changed = True
        return True
    if kind == "TOUCHBACK":
        # same text, OLDER modification time (restored from a backup, checked out again)
        f = m.files.get(target)
        if f is None or not m.visible(target):
            return False
        fp = os.path.join(w.psdir, target)
        old = os.path.getmtime(fp) - 1000
        os.utime(fp, (old, old))
        f["mtime"] = old
        return True
    if kind in ("MOD", "TOUCH", "DEL", "HASH"):
        f = m.files.get(target)
        if f is None or not m.visible(target):
            return False
        ctx = RM.FILES[target]
        if kind == "MOD":
            f["gen"] += 1
            w.write(target, src(ctx, f["gen"], edges))
            f["mtime"] = w._mtime
        elif kind == "TOUCH":
            w.touch(target)
            f["mtime"] = w._mtime
        elif kind == "DEL":
            w.remove(target)
            del m.files[target]
        else:
            d, n = os.path.split(target)
            w.rename(target, os.path.join(d, "#" + n))
            f["hidden"] = True
        return True
    if kind == "HASHDIR":
        if target in m.hidden_dirs or not any(m.visible(p) for p in RM.FILES if p.startswith(target + "/")):
            return False
        d, n = os.path.split(target)
        w.rename(target, os.path.join(d, "#" + n))
        m.hidden_dirs.add(target)
        return True
    if kind == "CONFDEL":
        if target not in m.apps:
            return False
        del m.apps[target]
    elif kind == "CONFCHG":
        if target not in m.apps:
            return False
        m.apps[target] += 1
    # app11 starts with an empty yaml entry (apps: {app11: }), which counts as configured
    w.conf["apps"] = {a: ({"val": v} if (a != "app11" or v > 1) else None) for a, v in m.apps.items()}
    return True


def loaded_contexts(w):
    from custom_components.pyscript.global_ctx import GlobalContextMgr

    return {n: c for n, c in GlobalContextMgr.contexts.items() if n.split(".")[0] in ("file", "apps", "modules", "scripts")}


def run_case(graph, edits1, reload1, edit2, legacy=False):
    from mc.world import World

    edges = edges_of(graph)
    m = RM.ReloadModel(edges)
    files = {p: src(c, 1, edges) for p, c in RM.FILES.items()}
    w = World(files, legacy=legacy, config={"apps": {"app1": {"val": 1}, "app2": {"val": 1}, "app11": None}})
    try:
        for p in RM.FILES:
            m.files[p]["mtime"] = os.path.getmtime(os.path.join(w.psdir, p))
        events = []
        w.hass.bus.async_listen("loaded", lambda ev: events.append((ev.data["ctx"], ev.data["gen"])))
        m.initial_load()
        got0 = set(loaded_contexts(w))
        if got0 != set(m.loaded):
            return {"kind": "initial-load", "expected": sorted(m.loaded), "observed": sorted(got0)}, None
        if edit2 and isinstance(edit2[0], (list, tuple)):
            later = [((tuple(e),), None) for e in edit2]  # a chain of further rounds, one edit + default reload each
        else:
            later = [((edit2,), None)] if edit2 else []
        rounds = [(edits1, reload1)] + later
        outcome = []
        for rnd, (edits, rel) in enumerate(rounds):
            applied = [apply_edit(w, m, e, edges) for e in edits]
            before = loaded_contexts(w)
            for c in before.values():
                c.global_sym_table["counter"] = 7 + rnd
            del events[:]
            try:
                w.reload(rel)
            except Exception as exc:  # noqa
                return {"kind": "reload-raised", "round": rnd, "observed": repr(exc)[:200]}, None
            w.settle()
            pre_loaded = set(m.loaded)
            discard, exp_events = m.reload(rel)
            after = loaded_contexts(w)
            outcome.append((tuple(sorted(discard)), tuple(sorted(exp_events))))
            if sorted(events) != sorted(exp_events):
                return {"kind": "load-events", "round": rnd, "expected": sorted(exp_events), "observed": sorted(events),
                        "discarded_by_model": sorted(discard)}, outcome
            if set(after) != set(m.loaded):
                return {"kind": "loaded-contexts", "round": rnd, "expected": sorted(m.loaded), "observed": sorted(after)}, outcome
            pongs = []
            unsub = w.hass.bus.async_listen("pong", lambda ev: pongs.append((ev.data["ctx"], ev.data["gen"])))
            w.fire("ping", {})
            w.settle()
            unsub()
            want_pongs = sorted((c, st["gen"]) for c, st in m.loaded.items() if c in RM.AUTOLOAD)
            if sorted(pongs) != want_pongs:
                return {"kind": "loaded-but-not-running", "round": rnd, "expected": want_pongs, "observed": sorted(pongs)}, outcome
            for ctx in pre_loaded - discard:
                if after.get(ctx) is not before.get(ctx) or after[ctx].global_sym_table.get("counter") != 7 + rnd:
                    return {"kind": "untouched-context-replaced", "round": rnd, "ctx": ctx, "expected": "same object, counter kept",
                            "observed": after[ctx].global_sym_table.get("counter") if ctx in after else None}, outcome
            for ctx in (discard & set(m.loaded)):
                if after.get(ctx) is before.get(ctx):
                    return {"kind": "discarded-context-kept", "round": rnd, "ctx": ctx}, outcome
        if w.errors:
            return {"kind": "loop-exception", "observed": repr(w.errors[0])[:300]}, outcome
        return None, outcome
    finally:
        w.close()


def cases(tier):
    gl = graphs(tier)
    singles = [(e,) for e in EDITS]
    out = []
    for gi, g in enumerate(gl):
        for e in singles:
            for rel in RELOADS:
                out.append((g, e, rel, None))
        pair_graph = tier == "thorough" or gi in (1, 8)
        if pair_graph:
            for e1, e2 in itertools.combinations(EDITS, 2):
                if e1[1] == e2[1] and e1[0] != e2[0] and {e1[0], e2[0]} & {"DEL", "HASH"}:
                    continue
                out.append((g, (e1, e2), None, None))
        # second round: an edit + default reload from the state reached
        second = EDITS if tier == "thorough" else EDITS[::3] + [("NOOP", None)]
        for e in singles[:: (1 if tier == "thorough" else 2)]:
            for e2 in second:
                if gi in (1, 8) or tier == "thorough" and gi % 5 == 0:
                    out.append((g, e, None, e2))
        # three rounds: a plain reload first (so that the integration has remembered its options), then a changed option, then nothing
        for first in (("NOOP", None), ("TOUCH", "a.py"), ("MOD", "modules/m1.py")):
            for second in (("OPTCHG", None), ("CONFCHG", "app1"), ("TOUCHBACK", "a.py")):
                for third in (("NOOP", None), ("TOUCH", "b.py"), ("OPTCHG", None)):
                    if tier == "thorough" or gi in (1, 8):
                        out.append((g, (first,), None, (second, third)))
    return out


def bounds(tier):
    return {"graphs": len(graphs(tier)), "edits": len(EDITS), "reload_kinds": RELOADS, "cases": len(cases(tier))}


def plan(tier, seed):
    n = 96 if tier == "thorough" else 48
    return [(tier, k, n) for k in range(n)]


def run_shard(shard):
    tier, k, n = shard
    res = Shard()
    for i, (g, edits, rel, e2) in enumerate(cases(tier)):
        if i % n != k:
            continue
        legacy = bool(i % 2)  # reload logic is shared by both subsystems: alternate
        fail, outcome = run_case(g, edits, rel, e2, legacy)
        case = {"graph": list(g), "edits": [list(e) for e in edits], "reload": rel, "edit2": list(e2) if e2 else None, "legacy": legacy}
        res.case((g, edits, rel, e2, repr(outcome)), nontrivial=bool(outcome) and any(o[0] for o in outcome), transitions=len(edits) + 1 + (2 if e2 else 0),
                 config="round2" if e2 else ("pair" if len(edits) > 1 else "single"), sample=case)
        if fail:
            e2kinds = ({e2[0]} if e2 and not isinstance(e2[0], (list, tuple)) else {x[0] for x in (e2 or ())})
            kinds = "+".join(sorted({e[0] for e in edits} | e2kinds))
            res.fail(f"{fail['kind']}|{kinds}|reload={rel}", case, expected=fail.get("expected"), observed=fail.get("observed"), detail=fail)
    return res


def replay(case):
    fail, outcome = run_case(tuple(case["graph"]), tuple(tuple(e) for e in case["edits"]), case["reload"],
                             tuple(case["edit2"]) if case["edit2"] else None, case["legacy"])
    return {"ok": fail is None, "failure": fail, "model_outcome": outcome}
