"""C04 — state triggers run the function for exactly the qualifying state changes (E1 + E2, both subsystems)."""

import itertools

from mc import explore as EX
from mc.result import Shard
from ref.statemodel import StateModel

PID = "C04"
LEVEL = "model_checking"
RULE = (
    "E1: every history of the action alphabet {set a/b to '0'/'1', attribute-only update of a (x=1/2, x removed), delete a/b, "
    "set unwatched u} up to the tier's depth from a fixed initial state, for each of the trigger forms below and both "
    "decorator subsystems, settled after every action, plus burst schedules (the next action issued after k in {0,1,2} "
    "loop callbacks, at most D deviations); E2: breadth-first search over all reachable states of the 2-entity state "
    "machine, every action applied from every state on a fresh world reached by a shortest path. After every quiescence "
    "the runs recorded by the script (function, trigger_type, var_name, value, attribute, old value, kwargs) are compared "
    "with the reference evaluation of the history on a dictionary model. distinct = distinct (form, recorded run list); "
    "non-trivial = at least one run was recorded"
)
ASSUMPTIONS = [
    "Home Assistant's state machine semantics: async_set with identical value and attributes emits no event",
    "trigger expressions are drawn from the abstract family rendered in FORMS (and/or/==/is None/int()/.old/attributes)",
    "runs caused by one event through several decorators of one function may start in either order",
    "NAME.old of a variable other than the changed one is not used by any form (the statement leaves it open)",
]
MAXTASKS = 40

A, B, U = "pyscript.a", "pyscript.b", "pyscript.u"
AB = "pyscript.ab"  # an entity whose id has A's id as a string prefix; never changed by the actions
INITIAL = {A: ("0", {"x": 1}), B: ("0", {}), U: ("0", {}), AB: ("0", {})}

ACTIONS = ["A1", "A0", "AX2", "AX1", "AXD", "AD", "B1", "B0", "BD", "U"]


def apply_model(model, act):
    if act == "A1":
        return model.set(A, "1")
    if act == "A0":
        return model.set(A, "0")
    if act == "AX1":
        return model.set(A, None, {"x": 1}) if model.get(A) else model.set(A, "0", {"x": 1})
    if act == "AX2":
        return model.set(A, None, {"x": 2}) if model.get(A) else model.set(A, "0", {"x": 2})
    if act == "AXD":  # drop the attribute (value kept)
        return model.set(A, None, {}) if model.get(A) else None
    if act == "AD":
        return model.remove(A)
    if act == "B1":
        return model.set(B, "1")
    if act == "B0":
        return model.set(B, "0")
    if act == "BD":
        return model.remove(B)
    if act == "U":
        cur = model.get(U)
        return model.set(U, "1" if (cur and cur[0] == "0") else "0")
    raise ValueError(act)


def apply_world(w, model_before, act):
    """Issue the same operation against Home Assistant (external change)."""
    hs = w.hass.states
    if act in ("A1", "A0"):
        cur = model_before.get(A)
        hs.async_set(A, act[1], dict(cur[1]) if cur else {})
    elif act in ("AX1", "AX2"):
        cur = model_before.get(A)
        hs.async_set(A, cur[0] if cur else "0", {"x": int(act[2])})
    elif act == "AXD":
        cur = model_before.get(A)
        if cur:
            hs.async_set(A, cur[0], {})
    elif act == "AD":
        hs.async_remove(A)
    elif act in ("B1", "B0"):
        cur = model_before.get(B)
        hs.async_set(B, act[1], dict(cur[1]) if cur else {})
    elif act == "BD":
        hs.async_remove(B)
    elif act == "U":
        cur = model_before.get(U)
        hs.async_set(U, "1" if (cur and cur[0] == "0") else "0", {})


# ------------------------------------------------------------------------------------------------
# trigger forms: source + abstract semantics
# ------------------------------------------------------------------------------------------------
class Env:
    def __init__(self, model, event):
        self.m, self.ev = model, event

    def _cur(self, name):
        if self.ev and name == self.ev[0]:
            return self.ev[2]
        return self.m.get(name)

    def V(self, name):
        c = self._cur(name)
        return None if c is None else c[0]

    def X(self, name, attr):
        c = self._cur(name)
        return None if c is None else c[1].get(attr)

    def OV(self, name):
        if self.ev and name == self.ev[0] and self.ev[1] is not None:
            return self.ev[1][0]
        return None

    def OX(self, name, attr):
        if self.ev and name == self.ev[0] and self.ev[1] is not None:
            return self.ev[1][1].get(attr)
        return None


class Dec:
    def __init__(self, src, expr=None, watch=(), anys=(), kwargs=None):
        self.src = src  # text inside @state_trigger( ... )
        self.expr = expr  # callable(Env) -> truthy, or None
        self.watch = set(watch)  # names whose change causes an evaluation
        self.anys = set(anys)  # any-change names
        self.kwargs = kwargs or {}


def _int_gt0(e):
    return int(e.V(A)) > 0


FORMS = [
    ("single", [("f1", [Dec("\"pyscript.a == '1'\"", lambda e: e.V(A) == "1", [A])])]),
    ("two_entities", [("f1", [Dec("\"pyscript.a == '1' and pyscript.b == '1'\"",
                                 lambda e: e.V(A) == "1" and e.V(B) == "1", [A, B])])]),
    ("multi_args", [("f1", [Dec("\"pyscript.a == '1'\", \"pyscript.b == '1'\"",
                               lambda e: e.V(A) == "1" or e.V(B) == "1", [A, B])])]),
    ("list", [("f1", [Dec("[\"pyscript.a == '1'\", \"pyscript.b == '1'\"]",
                         lambda e: e.V(A) == "1" or e.V(B) == "1", [A, B])])]),
    ("set", [("f1", [Dec("{\"pyscript.a == '1'\", \"pyscript.b == '1'\"}",
                        lambda e: e.V(A) == "1" or e.V(B) == "1", [A, B])])]),
    ("any_value", [("f1", [Dec("\"pyscript.a\"", None, [A], anys=[A])])]),
    ("any_attr", [("f1", [Dec("\"pyscript.a.x\"", None, [A + ".x"], anys=[A + ".x"])])]),
    ("any_wild", [("f1", [Dec("\"pyscript.a.*\"", None, [A + ".*"], anys=[A + ".*"])])]),
    ("attr_expr", [("f1", [Dec("\"pyscript.a.x == 2\"", lambda e: e.X(A, "x") == 2, [A + ".x"])])]),
    ("old", [("f1", [Dec("\"pyscript.a == '1' and pyscript.a.old == '0'\"",
                        lambda e: e.V(A) == "1" and e.OV(A) == "0", [A])])]),
    ("old_attr", [("f1", [Dec("\"pyscript.a.x == 2 and pyscript.a.old.x == 1\"",
                             lambda e: e.X(A, "x") == 2 and e.OX(A, "x") == 1, [A + ".x"])])]),
    ("mixed_any_expr", [("f1", [Dec("\"pyscript.b\", \"pyscript.a == '1'\"", lambda e: e.V(A) == "1", [A, B], anys=[B])])]),
    ("watch_subset", [("f1", [Dec("\"pyscript.a == '1' and pyscript.b == '1'\", watch=[\"pyscript.a\"]",
                                 lambda e: e.V(A) == "1" and e.V(B) == "1", [A])])]),
    ("watch_superset", [("f1", [Dec("\"pyscript.a == '1'\", watch={\"pyscript.a\", \"pyscript.u\"}",
                                   lambda e: e.V(A) == "1", [A, U])])]),
    ("undefined_none", [("f1", [Dec("\"pyscript.b is None and pyscript.a == '1'\"",
                                   lambda e: e.V(B) is None and e.V(A) == "1", [A, B])])]),
    ("undef_attr_none", [("f1", [Dec("\"pyscript.a.nope is None and pyscript.a.x == 2\"",
                                    lambda e: e.X(A, "x") == 2, [A + ".nope", A + ".x"])])]),
    ("int_expr", [("f1", [Dec("\"int(pyscript.a) > 0\"", _int_gt0, [A])])]),
    ("two_decorators", [("f1", [Dec("\"pyscript.a == '1'\", kwargs={'who': 1}", lambda e: e.V(A) == "1", [A], kwargs={"who": 1}),
                               Dec("\"pyscript.b == '1'\", kwargs={'who': 2}", lambda e: e.V(B) == "1", [B], kwargs={"who": 2})])]),
    ("two_decorators_same", [("f1", [Dec("\"pyscript.a == '1'\", kwargs={'who': 1}", lambda e: e.V(A) == "1", [A], kwargs={"who": 1}),
                                    Dec("\"pyscript.a\", kwargs={'who': 2}", None, [A], anys=[A], kwargs={"who": 2})])]),
    ("kwargs_override", [("f1", [Dec("\"pyscript.a == '1'\", kwargs={'value': 'OVR', 'who': 7}", lambda e: e.V(A) == "1", [A],
                                    kwargs={"value": "OVR", "who": 7})])]),
    # several expressions are or'ed as whole expressions, whatever their operator precedence
    ("multi_args_ifexp", [("f1", [Dec("\"pyscript.b == '1'\", \"1 if pyscript.a == '1' else 0\"",
                                     lambda e: e.V(B) == "1" or (1 if e.V(A) == "1" else 0), [A, B])])]),
    # an attribute of one entity next to the value of another: the first evaluation may be caused by either
    ("attr_and_other", [("f1", [Dec("\"pyscript.b == '1' and pyscript.a.x == 2\"",
                                   lambda e: e.V(B) == "1" and e.X(A, "x") == 2, [B, A + ".x"])])]),
    # an attribute of A next to the value of an entity whose id starts with A's id
    ("prefix_entity", [("f1", [Dec("\"pyscript.a.x == 1 and pyscript.ab == '0'\"",
                                  lambda e: e.X(A, "x") == 1 and e.V(AB) == "0", [A + ".x", AB])])]),
    # state variables below a method call on a call result / on a parenthesised expression are watched too
    ("method_chain", [("f1", [Dec("\"str(pyscript.a).lower().strip() == '1'\"", lambda e: str(e.V(A)).lower().strip() == "1", [A])])]),
    ("paren_method", [("f1", [Dec("\"(pyscript.a + pyscript.b).upper() == '11'\"",
                                 lambda e: (e.V(A) + e.V(B)).upper() == "11", [A, B])])]),
    ("two_functions", [("f1", [Dec("\"pyscript.a == '1'\"", lambda e: e.V(A) == "1", [A])]),
                       ("f2", [Dec("\"pyscript.a == '0' or pyscript.b == '1'\"", lambda e: e.V(A) == "0" or e.V(B) == "1", [A, B])])]),
]
QUICK_FORMS = [f[0] for f in FORMS]

HEADER = '''
calls = []
def rec(fid, kw):
    v = kw.get("value")
    o = kw.get("old_value")
    calls.append((fid, kw.get("trigger_type"), kw.get("var_name"), None if v is None else str(v), getattr(v, "x", None),
                  None if o is None else str(o), getattr(o, "x", None), kw.get("who")))
'''


def script_for(form):
    out = [HEADER]
    for fid, decs in form[1]:
        for d in decs:
            out.append(f"@state_trigger({d.src})")
        out.append(f"def {fid}(**kw):\n    rec('{fid}', kw)\n")
    return "\n".join(out)


def changed(name, event):
    """Does `event` change the watched name (value, attribute, or wildcard)?"""
    ent, old, new = event
    parts = name.split(".")
    root = parts[0] + "." + parts[1]
    if root != ent:
        return False
    if len(parts) == 2 or parts[2] == "old":
        return (old[0] if old else None) != (new[0] if new else None)
    if parts[2] == "*":
        return (old[1] if old else {}) != (new[1] if new else {})
    return (old[1].get(parts[2]) if old else None) != (new[1].get(parts[2]) if new else None)


def expected_runs(form, model_after, event):
    """Reference: the group of runs this event causes, per function -> list of recorded tuples."""
    groups = {}
    ent, old, new = event
    env = Env(model_after, event)
    for fid, decs in form[1]:
        runs = []
        for d in decs:
            fire = any(changed(n, event) for n in d.anys)
            if not fire and d.expr is not None and any(changed(n, event) for n in d.watch):
                try:
                    fire = bool(d.expr(env))
                except Exception:  # noqa  (an exception in the expression means: not truthy)
                    fire = False
            if fire:
                value = new[0] if new else None
                vx = new[1].get("x") if new else None
                if "value" in d.kwargs:
                    value, vx = d.kwargs["value"], None
                runs.append((fid, "state", ent, value, vx, old[0] if old else None, old[1].get("x") if old else None,
                             d.kwargs.get("who")))
        groups[fid] = runs
    return groups


# ------------------------------------------------------------------------------------------------
def bounds(tier):
    return ({"depth_settled": 4, "depth_burst": 3, "max_deviations": 2, "burst_k": [0, 1, 2], "forms": len(FORMS), "e2": "fixpoint"}
            if tier == "thorough" else
            {"depth_settled": 3, "depth_burst": 2, "max_deviations": 1, "burst_k": [0, 1, 2], "forms": len(FORMS), "e2": "fixpoint"})


def plan(tier, seed):
    shards = []
    d_set, d_burst, maxdev = (4, 3, 2) if tier == "thorough" else (3, 2, 1)
    nsplit = 10 if tier == "thorough" else 3
    for fi in range(len(FORMS)):
        for legacy in (False, True):
            for k in range(nsplit):
                shards.append(("e1", fi, legacy, d_set, 0, k, nsplit))
            shards.append(("e1", fi, legacy, d_burst, maxdev, 0, 1))
            shards.append(("e2", fi, legacy))
    return shards


def run_history(form, legacy, hist, sched, res=None, trace=None):
    """Execute one history on a fresh world; returns failure dict or None."""
    from homeassistant.const import EVENT_HOMEASSISTANT_STARTED
    from mc.world import World

    model = StateModel(INITIAL)
    w = World({"hello.py": script_for(form)}, legacy=legacy, started=False)
    try:
        for ent, (val, attrs) in INITIAL.items():
            w.hass.states.async_set(ent, val, attrs)
        w.settle()
        w.hass.bus.async_fire(EVENT_HOMEASSISTANT_STARTED)
        w.settle()
        exp_groups = {fid: [] for fid, _ in form[1]}
        fail = None
        nsteps = 0
        for i, act in enumerate(hist):
            before = model.copy()
            ev = apply_model(model, act)
            apply_world(w, before, act)
            nsteps += 1
            if ev is not None:
                for fid, runs in expected_runs(form, model, ev).items():
                    if runs:
                        exp_groups[fid].append(runs)
            k = sched[i] if i < len(sched) else None
            if k is None:
                w.settle()
                fail = compare(w, form, exp_groups, hist[: i + 1])
                if fail:
                    break
            else:
                w.loop.run_steps(k)
        if fail is None:
            w.settle()
            w.advance(1.0)
            fail = compare(w, form, exp_groups, hist)
        if fail is None and w.errors:
            fail = {"kind": "loop-exception", "detail": repr(w.errors[0])[:300]}
        calls = [tuple(c) for c in w.g()["calls"]]
        if fail is None:
            # model/impl state agreement (the dictionary model is also what C16 relies on)
            impl = tuple(sorted((s.entity_id, s.state, tuple(sorted(s.attributes.items())))
                                for s in w.hass.states.async_all() if s.entity_id in (A, B, U, AB)))
            if impl != model.canon():
                fail = {"kind": "model-state-mismatch", "expected": model.canon(), "observed": impl}
        if trace is not None:
            trace["calls"] = calls
            trace["expected"] = exp_groups
        return fail, calls, nsteps, model
    finally:
        w.close()


def compare(w, form, exp_groups, prefix):
    calls = [tuple(c) for c in w.g()["calls"]]
    for fid, _ in form[1]:
        obs = [c for c in calls if c[0] == fid]
        if not EX.match_groups(exp_groups[fid], obs):
            flat = [r for g in exp_groups[fid] for r in g]
            kind = "missing-run" if len(obs) < len(flat) else ("extra-run" if len(obs) > len(flat) else "wrong-run")
            if kind == "wrong-run" and sorted(map(repr, obs)) == sorted(map(repr, flat)):
                # same runs, other order: is every decorator's own sequence (identified by its kwargs) in order?
                whos = {r[7] for r in flat}
                if len(whos) > 1 and all([r for r in obs if r[7] == x] == [r for r in flat if r[7] == x] for x in whos):
                    kind = "cross-decorator-order"
                else:
                    kind = "order"
            return {"kind": kind, "func": fid, "after": list(prefix), "expected": flat, "observed": obs}
    return None


def sig_of(form, legacy, fail, sched):
    """Divergence signature: form, subsystem, kind of the first divergence, settled or burst schedule."""
    mode = "burst" if any(k is not None for k in sched) else "settled"
    if fail["kind"] == "cross-decorator-order":
        # one root cause whatever the form: every decorator has its own trigger task
        return f"*|{'legacy' if legacy else 'new'}|cross-decorator-order|{mode}"
    return f"{form[0]}|{'legacy' if legacy else 'new'}|{fail['kind']}|{mode}"


def run_shard(shard):
    res = Shard()
    kind = shard[0]
    form = FORMS[shard[1]]
    legacy = shard[2]
    cfg = f"{form[0]}/{'legacy' if legacy else 'new'}"
    if kind == "e1":
        _, _, _, depth, maxdev, k, n = shard
        scheds = EX.schedules(depth, maxdev)
        # quick tier, settled histories of length 3: without the unwatched entity and the repeated attribute value (both are applied
        # from every reachable state by E2 and in all bursts of length 2)
        acts = [a for a in ACTIONS if a not in ("U", "AX1")] if (depth == 3 and maxdev == 0) else ACTIONS
        for i, hist in enumerate(EX.sequences(acts, depth)):
            if i % n != k:
                continue
            for sched in scheds:
                fail, calls, nsteps, model = run_history(form, legacy, hist, sched)
                case = {"form": form[0], "legacy": legacy, "hist": list(hist), "sched": list(sched)}
                res.case((form[0], calls), nontrivial=bool(calls), transitions=nsteps, config=cfg, sample=case,
                         state=(form[0], model.canon()))
                if fail:
                    res.fail(sig_of(form, legacy, fail, sched), case, expected=fail.get("expected"),
                             observed=fail.get("observed"), detail=fail)
    else:
        # E2: every action from every reachable model state (shortest path replayed on a fresh world)
        def step(st, a):
            m = StateModel(dict(st))
            apply_model(m, a)
            return tuple(sorted(m.s.items(), key=lambda kv: kv[0]))

        def canon(st):
            return StateModel(dict(st)).canon()

        init = tuple(sorted(StateModel(INITIAL).s.items(), key=lambda kv: kv[0]))
        reach = EX.bfs_states(init, ACTIONS, step, canon)
        for key, path in sorted(reach.items(), key=lambda kv: (len(kv[1]), kv[1])):
            for a in ACTIONS:
                hist = tuple(path) + (a,)
                fail, calls, nsteps, model = run_history(form, legacy, hist, ())
                case = {"form": form[0], "legacy": legacy, "hist": list(hist), "sched": [], "engine": "E2"}
                res.case((form[0], calls), nontrivial=bool(calls), transitions=nsteps, config=cfg + "/e2", sample=case,
                         state=(form[0], model.canon()))
                if fail:
                    res.fail(sig_of(form, legacy, fail, ()), case, expected=fail.get("expected"),
                             observed=fail.get("observed"), detail=fail)
    return res


def replay(case):
    form = [f for f in FORMS if f[0] == case["form"]][0]
    trace = {}
    fail, calls, nsteps, model = run_history(form, case["legacy"], tuple(case["hist"]), tuple(case.get("sched", ())), trace=trace)
    return {"ok": fail is None, "failure": fail, "calls": calls, "expected_groups": trace.get("expected"),
            "script": script_for(form)}
