"""C12 — a @service exists exactly while declared and calls the current definition (E1, both subsystems)."""

import itertools

from mc import explore as EX
from mc.result import Shard

PID = "C12"
LEVEL = "model_checking"
RULE = (
    "incoming: every sequence up to the tier's depth over {define / redefine function svc in interactive context S with "
    "one of 7 declaration variants (default name, explicit name, two decorators, two arguments, other name with optional "
    "response, response only, default name above a user decorator that returns a wrapper), the same in a second context T with single-name variants (colliding with S), a second "
    "function in S declaring a shared name, del of each function, edit+reload / delete+reload of a script file declaring "
    "a service, redefinition of that file's service function from inside a running service function, call every name of the universe with fresh data} and a final unload; after every completed step "
    "hass.services.has_service equals the declared-services model (owner context, live accepted declarations), a call "
    "runs the newest live declaration with trigger_type='service' + the call data and returns its result when a "
    "response is supported, a foreign declaration changes nothing, and nothing remains after unload. outgoing: every "
    "call form (DOMAIN.service(...), service.call(...)) x every combination of context / blocking / return_response "
    "arguments with right and wrong types x recorder services with the three response modes: the recorder receives "
    "exactly the remaining keyword parameters and the response comes back; entity-method form: every sequence over "
    "{define / redefine a service with an entity_id and one other parameter under two parameter names, define an unrelated "
    "service, delete} each followed by DOMAIN.entity.service(value) and DOMAIN.entity.service(param=value): the value reaches the "
    "current definition under its own parameter name. distinct = distinct (step, registry, "
    "responses); non-trivial = a service ran"
)
ASSUMPTIONS = [
    "a declaration rejected because another context owns one of its names leaves the other names of the same function unspecified "
    "while that function lives (the subsystems differ); once the function is deleted or the integration unloaded they must be gone",
    "calls that Home Assistant itself rejects (return_response on a service without response support) are not generated",
    "the entity-method form DOMAIN.entity.service(...) needs pyscript's cache of service parameters, which the legacy subsystem only refreshes at "
    "start-up and at the beginning of a reload: toward services defined afterwards the form is not available there, so it is explored in the default subsystem only",
]
MAXTASKS = 30

UNIVERSE = [("pyscript", "svc"), ("test", "s1"), ("test", "s2"), ("test", "s3"), ("test", "s4"), ("test", "f1"), ("test", "t_own")]

# variant -> (decorator lines, names, supports_response)
VARIANTS = {
    "V1": (["@service"], [("pyscript", "svc")], "none"),
    "V2": (["@service(\"test.s1\")"], [("test", "s1")], "none"),
    "V3": (["@service(\"test.s1\")", "@service(\"test.s2\")"], [("test", "s1"), ("test", "s2")], "none"),
    "V4": (["@service(\"test.s1\", \"test.s2\")"], [("test", "s1"), ("test", "s2")], "none"),
    "V5": (["@service(\"test.s3\", supports_response=\"optional\")"], [("test", "s3")], "optional"),
    "V6": (["@service(\"test.s4\", supports_response=\"only\")"], [("test", "s4")], "only"),
    # the default name is the declared function's name also when a user decorator returns a wrapper
    "V7": (["@service", "@logged"], [("pyscript", "svc")], "none"),
    # two names of which the second may belong to the other context: a partly rejected declaration
    "V8": (["@service(\"test.t_own\", \"test.s1\")"], [("test", "t_own"), ("test", "s1")], "none"),
}
S_VARIANTS = ["V1", "V2", "V3", "V4", "V5", "V6", "V7"]
LOGGED = "def logged(fn):\n    def wrapper(**kw):\n        return fn(**kw)\n    return wrapper\n"
T_VARIANTS = ["V1", "V5", "V8"]

BODY = '''def {fname}(**kw):
    runs.append(("{ctx}", "{fname}", {gen}, kw.get("trigger_type"), kw.get("x"), sorted([k for k in kw if k not in ("trigger_type", "x", "context")])))
    return {{"got": kw.get("x"), "gen": {gen}}}
'''


def func_src(ctx, fname, variant, gen):
    decs, names, resp = VARIANTS[variant]
    return "".join(d + "\n" for d in decs) + BODY.format(fname=fname, ctx=ctx, gen=gen)


def ops(tier):
    out = [("DEF", "S", v) for v in S_VARIANTS] + [("DEF", "T", v) for v in T_VARIANTS]
    out += [("DEL", "S"), ("DEL", "T"), ("DEFO",), ("DELO",), ("FEDIT",), ("FDEL",), ("FREDEF",)]  # every step is followed by a call of every name
    return out


class Model:
    def __init__(self):
        self.funcs = {}  # (ctx, fname) -> dict(gen, names accepted:list, resp)
        self.owner = {}  # name -> ctx
        self.gen = 0
        self.siblings = set()  # names that two different function variables declared at the same time

    def declarers(self, name):
        return [f for f in self.funcs.values() if name in f["names"]]

    def define(self, ctx, fname, names, resp):
        """New function declared, then the old one of the same variable released (Python semantics)."""
        self.gen += 1
        accepted = []
        for nm in names:
            own = self.owner.get(nm)
            if own is None or own == ctx:
                self.owner[nm] = ctx
                accepted.append(nm)
        new = {"gen": self.gen, "names": accepted, "resp": resp, "ctx": ctx, "fuzzy": len(accepted) != len(names)}
        old = self.funcs.get((ctx, fname))
        for nm in accepted:
            if any(nm in f["names"] for k, f in self.funcs.items() if k != (ctx, fname)):
                self.siblings.add(nm)
        self.funcs[(ctx, fname)] = new
        if old:
            self._release(old, keep=new)
        return new

    def delete(self, ctx, fname):
        old = self.funcs.pop((ctx, fname), None)
        if old:
            self._release(old)

    def _release(self, old, keep=None):
        for nm in old["names"]:
            if not self.declarers(nm):
                self.owner.pop(nm, None)

    def registered(self):
        return {nm for nm in UNIVERSE if self.declarers(nm)}

    def fuzzy_names(self):
        """Names accepted from a declaration of which another name was rejected: while that function lives, whether they are
        registered is not specified (the subsystems differ); once it is gone they must be gone."""
        out = set()
        for f in self.funcs.values():
            if f.get("fuzzy"):
                out.update(n for n in f["names"] if len(self.declarers(n)) == 1)
        return out

    def newest(self, name):
        ds = self.declarers(name)
        return max(ds, key=lambda f: f["gen"]) if ds else None


REDEF = '''
@service("test.redef")
def redef(gen=0):
    """Redefine the file's service function from inside a running function."""
    global fsvc
    @service("test.f1")
    def fsvc(**kw):
        runs.append(("F", "fsvc", gen, kw.get("trigger_type"), kw.get("x"), sorted([k for k in kw if k not in ("trigger_type", "x", "context")])))
        return {"got": kw.get("x"), "gen": gen}
'''


def file_src(gen):
    return "runs = []\n" + "@service(\"test.f1\")\n" + BODY.format(fname="fsvc", ctx="F", gen=gen) + REDEF


def run_seq(legacy, seq, final_unload=True):
    from homeassistant.exceptions import HomeAssistantError
    from mc.world import World

    w = World({}, legacy=legacy)
    try:
        runs = []
        ctxs = {"S": w.new_session("jupyter_0"), "T": w.new_session("jupyter_1")}
        for c in ctxs.values():
            w.g(c)["runs"] = runs
            w.exec_in(LOGGED, c)
        m = Model()
        fgen = None
        xcount = 0
        trace = []

        def check_registry(step, op):
            fz = m.fuzzy_names()
            have = {nm for nm in UNIVERSE if w.hass.services.has_service(*nm)} - fz
            want = m.registered() - fz
            if have != want:
                return {"kind": "registry", "step": step, "op": list(op), "expected": sorted(want), "observed": sorted(have)}
            return None

        def call_all(i, op):
            nonlocal xcount
            for nm in UNIVERSE:
                if nm in m.fuzzy_names():
                    continue
                xcount += 1
                newest = m.newest(nm)
                if newest is None:
                    try:
                        w.call_service(nm[0], nm[1], {"x": xcount})
                        return {"kind": "call-of-missing-service-succeeded", "step": i, "op": list(op), "name": nm}
                    except HomeAssistantError:
                        pass
                    continue
                modes = {"none": [False], "optional": [False, True], "only": [True]}[newest["resp"]]
                for rr in modes:
                    xcount += 1
                    n0 = len(runs)
                    try:
                        resp = w.call_service(nm[0], nm[1], {"x": xcount, "extra": "e"}, return_response=rr)
                    except Exception as exc:  # noqa
                        return {"kind": "call-raised", "step": i, "op": list(op), "name": nm, "detail": repr(exc)[:200]}
                    got = [tuple(r[:5]) + (tuple(r[5]),) for r in runs[n0:]]
                    fn = [k for k, f in m.funcs.items() if f is newest][0]
                    exp = [(fn[0], fn[1], newest["gen"], "service", xcount, ("extra",))]
                    if got != exp:
                        kind = "wrong-definition-ran"
                        live_gens = {f["gen"] for f in m.funcs.values()}
                        if len(got) == 1 and got[0][2] not in live_gens:
                            # a definition that no longer exists ran; separate root cause when the name was at some
                            # point declared by two different function variables at once (sibling declarations)
                            kind = "dead-definition-ran-after-sibling-removal" if nm in m.siblings else "dead-definition-ran"
                        return {"kind": kind, "step": i, "op": list(op), "name": nm, "expected": exp, "observed": got}
                    exp_resp = {"got": xcount, "gen": newest["gen"]} if rr else None
                    if resp != exp_resp:
                        return {"kind": "response", "step": i, "name": nm, "expected": exp_resp, "observed": resp}
                if newest["resp"] != "only":
                    # the call's data is delivered as given, also under the names the integration adds itself
                    xcount += 1
                    n0 = len(runs)
                    try:
                        w.call_service(nm[0], nm[1], {"x": xcount, "trigger_type": "from-data"})
                    except Exception as exc:  # noqa
                        return {"kind": "call-raised", "step": i, "op": list(op), "name": nm, "detail": repr(exc)[:200]}
                    got = [tuple(r[:5]) for r in runs[n0:]]
                    fn = [k for k, f in m.funcs.items() if f is newest][0]
                    if got != [(fn[0], fn[1], newest["gen"], "from-data", xcount)]:
                        return {"kind": "call-data-overridden", "step": i, "op": list(op), "name": nm,
                                "expected": [(fn[0], fn[1], newest["gen"], "from-data", xcount)], "observed": got}
            return None

        for i, op in enumerate(seq):
            if op[0] == "DEF":
                _, c, v = op
                decs, names, resp = VARIANTS[v]
                new = m.define(c, "svc", names, resp)
                w.exec_in(func_src(c, "svc", v, new["gen"]), ctxs[c])
            elif op[0] == "DEL":
                c = op[1]
                if (c, "svc") not in m.funcs:
                    continue
                m.delete(c, "svc")
                w.exec_in("del svc\n", ctxs[c])
            elif op[0] == "DEFO":
                new = m.define("S", "other", [("test", "s1")], "none")
                w.exec_in(func_src("S", "other", "V2", new["gen"]), ctxs["S"])
            elif op[0] == "DELO":
                if ("S", "other") not in m.funcs:
                    continue
                m.delete("S", "other")
                w.exec_in("del other\n", ctxs["S"])
            elif op[0] == "FEDIT":
                new = m.define("F", "fsvc", [("test", "f1")], "none")
                fgen = new["gen"]
                w.write("a.py", file_src(fgen))
                w.reload()
                if w.g("file.a") is not None:
                    w.g("file.a")["runs"] = runs
            elif op[0] == "FREDEF":
                if fgen is None:
                    continue
                new = m.define("F", "fsvc", [("test", "f1")], "none")
                fgen = new["gen"]
                try:
                    w.call_service("test", "redef", {"gen": fgen})
                except Exception as exc:  # noqa
                    return {"kind": "redefinition-service-call-raised", "step": i, "op": list(op), "detail": repr(exc)[:200]}, trace, m
                w.settle()
            elif op[0] == "FDEL":
                if fgen is None:
                    continue
                m.delete("F", "fsvc")
                fgen = None
                w.remove("a.py")
                w.reload()
            elif op[0] == "CALL":
                fail = call_all(i, op)
                if fail:
                    return fail, trace, m
            if False:
                for nm in UNIVERSE:
                    xcount += 1
                    newest = m.newest(nm)
                    n0 = len(runs)
                    if newest is None:
                        try:
                            w.call_service(nm[0], nm[1], {"x": xcount})
                            return {"kind": "call-of-missing-service-succeeded", "step": i, "op": list(op), "name": nm}, trace, m
                        except HomeAssistantError:
                            pass
                        except Exception as exc:  # noqa
                            if type(exc).__name__ not in ("ServiceNotFound",):
                                return {"kind": "call-missing-unexpected-exception", "step": i, "detail": repr(exc)}, trace, m
                        continue
                    modes = {"none": [False], "optional": [False, True], "only": [True]}[newest["resp"]]
                    for rr in modes:
                        xcount += 1
                        n0 = len(runs)
                        try:
                            resp = w.call_service(nm[0], nm[1], {"x": xcount, "extra": "e"}, return_response=rr)
                        except Exception as exc:  # noqa
                            return {"kind": "call-raised", "step": i, "op": list(op), "name": nm, "detail": repr(exc)[:200]}, trace, m
                        got = [tuple(r[:5]) + (tuple(r[5]),) for r in runs[n0:]]
                        fn = [k for k, f in m.funcs.items() if f is newest][0]
                        exp = [(fn[0], fn[1], newest["gen"], "service", xcount, ("extra",))]
                        if got != exp:
                            return {"kind": "wrong-definition-ran", "step": i, "op": list(op), "name": nm, "expected": exp, "observed": got}, trace, m
                        exp_resp = {"got": xcount, "gen": newest["gen"]} if rr else None
                        if resp != exp_resp:
                            return {"kind": "response", "step": i, "name": nm, "expected": exp_resp, "observed": resp}, trace, m
            w.collect()
            w.collect()
            fail = check_registry(i, op)
            if fail is None and op[0] != "CALL":
                fail = call_all(i, op)
            trace.append((op, sorted(m.registered())))
            if fail:
                return fail, trace, m
        if final_unload:
            entry = w.hass.config_entries.async_entries("pyscript")[0]
            w.run(w.hass.config_entries.async_unload(entry.entry_id))
            w.collect()
            left = [nm for nm in UNIVERSE if w.hass.services.has_service(*nm)]
            if left:
                return {"kind": "service-after-unload", "observed": left}, trace, m
            from custom_components.pyscript.function import Function

            stale = {k: v for k, v in Function.service_cnt.items() if v} or dict(Function.service2global_ctx)
            if stale:
                return {"kind": "registry-tables-after-unload", "observed": stale}, trace, m
        if w.errors:
            return {"kind": "loop-exception", "detail": repr(w.errors[0])[:300]}, trace, m
        return None, trace, m
    finally:
        w.close()


# ---- outgoing calls --------------------------------------------------------------------------
def outgoing_cases():
    forms = ["direct", "service.call"]
    ctxs = [None, "ctx", "str"]
    blockings = [None, True, False, "yes"]
    rrs = [None, True, False, 1]
    for mode in ("none", "optional", "only"):
        for form in forms:
            for c, b, r in itertools.product(ctxs, blockings, rrs):
                if mode == "none" and r is True:
                    continue  # HA rejects it
                if b is False and r is True:
                    continue  # HA rejects it (a response needs a blocking call)
                if mode == "only" and (r is False or b is False):
                    continue  # HA rejects it (a response needs a blocking call)
                yield (mode, form, c, b, r)


def run_outgoing(legacy, case):
    from homeassistant.core import Context, SupportsResponse
    from mc.world import World

    mode, form, c, b, r = case
    w = World({}, legacy=legacy)
    try:
        ctxname = w.new_session("jupyter_0")
        seen = []

        async def rec(call):
            seen.append((dict(call.data), call.context))
            return {"ok": call.data.get("a")} if call.return_response else None

        w.hass.services.async_register("test", "rec", rec, supports_response={
            "none": SupportsResponse.NONE, "optional": SupportsResponse.OPTIONAL, "only": SupportsResponse.ONLY}[mode])
        given = Context()
        w.g(ctxname)["CTX"] = given
        args = ["a=1", "b='two'"]
        exp_data = {"a": 1, "b": "two"}
        exp_ctx = None
        if c == "ctx":
            args.append("context=CTX")
            exp_ctx = given
        elif c == "str":
            args.append("context='notctx'")
            exp_data["context"] = "notctx"
        if b is not None:
            args.append(f"blocking={b!r}")
            if not isinstance(b, bool):
                exp_data["blocking"] = b
        if r is not None:
            args.append(f"return_response={r!r}")
            if not isinstance(r, bool):
                exp_data["return_response"] = r
        call = (f"test.rec({', '.join(args)})" if form == "direct" else f"service.call('test', 'rec', {', '.join(args)})")
        box = w.exec_in(f"res = {call}\n", ctxname)
        w.settle()
        if "exc" in box:
            return {"kind": "outgoing-raised", "detail": repr(box["exc"])[:200]}, None
        if len(seen) != 1:
            return {"kind": "outgoing-call-count", "observed": len(seen)}, None
        data, ctx = seen[0]
        if data != exp_data:
            return {"kind": "outgoing-data", "expected": exp_data, "observed": data}, None
        if exp_ctx is not None and ctx.id != exp_ctx.id:
            return {"kind": "outgoing-context", "expected": "the given context", "observed": ctx.id}, None
        want_resp = (r is True) or (mode == "only" and not (r is False))
        res = w.g(ctxname).get("res")
        blocking_false = b is False and not want_resp
        exp_res = {"ok": 1} if want_resp else None
        if not blocking_false and res != exp_res:
            return {"kind": "outgoing-response", "expected": exp_res, "observed": res}, None
        return None, (data, res)
    finally:
        w.close()


# ---- entity-method call form ---------------------------------------------------------------------
ENT_OPS = ["DEFA", "DEFB", "DEFN", "DELF"]
ENT_SRC = {
    "DEFA": "@service('test.setlvl')\ndef setlvl(entity_id=None, brightness=None, **kw):\n    seen.append(('A', entity_id, ('brightness', brightness), sorted(k for k in kw if k not in ('trigger_type', 'context'))))\n",
    "DEFB": "@service('test.setlvl')\ndef setlvl(entity_id=None, level=None, **kw):\n    seen.append(('B', entity_id, ('level', level), sorted(k for k in kw if k not in ('trigger_type', 'context'))))\n",
    "DEFN": "@service('test.unrelated')\ndef unrelated(x=None):\n    pass\n",
    "DELF": "del setlvl\n",
}


def run_entity(legacy, seq):
    """test.lamp.setlvl(4) / test.lamp.setlvl(<param>=5): the value reaches the CURRENT definition under its own parameter name."""
    from mc.world import World

    w = World({}, legacy=legacy)
    try:
        ctx = w.new_session("jupyter_0")
        seen = []
        w.g(ctx)["seen"] = seen
        w.hass.states.async_set("test.lamp", "on")
        w.settle()
        cur = None
        trace = []
        for i, op in enumerate(seq):
            if op == "DELF" and cur is None:
                continue
            # list comprehension instead of a generator expression in the recorded source
            box = w.exec_in(ENT_SRC[op].replace("sorted(k for k in kw if k not in ('trigger_type', 'context'))",
                                                "sorted([k for k in kw if k not in ('trigger_type', 'context')])"), ctx)
            w.settle()
            w.collect()
            if "exc" in box:
                return {"kind": "entity-define-raised", "step": i, "op": op, "detail": repr(box["exc"])[:200]}, trace
            if op in ("DEFA", "DEFB"):
                cur = op[-1]
            elif op == "DELF":
                cur = None
            if cur is None:
                continue
            param = "brightness" if cur == "A" else "level"
            for form, call, val in (("positional", "test.lamp.setlvl(4)", 4), ("keyword", f"test.lamp.setlvl({param}=5)", 5)):
                n0 = len(seen)
                box = w.exec_in(call + "\n", ctx)
                w.settle()
                got = list(seen[n0:])
                exp = [(cur, "test.lamp", (param, val), [])]
                trace.append((op, form, got))
                if "exc" in box:
                    return {"kind": "entity-call-raised", "step": i, "op": op, "form": form, "expected": exp, "observed": repr(box["exc"])[:200]}, trace
                if got != exp:
                    return {"kind": "entity-call-data", "step": i, "op": op, "form": form, "expected": exp, "observed": got}, trace
        if w.errors:
            return {"kind": "loop-exception", "detail": repr(w.errors[0])[:300]}, trace
        return None, trace
    finally:
        w.close()


# ---- plan ------------------------------------------------------------------------------------
def bounds(tier):
    return {"depth": 4 if tier == "thorough" else 3, "ops": len(ops(tier)), "outgoing_cases": len(list(outgoing_cases()))}


def plan(tier, seed):
    depth = 4 if tier == "thorough" else 3
    n = 48 if tier == "thorough" else 8
    shards = [("in", legacy, depth, k, n) for legacy in (False, True) for k in range(n)]
    shards += [("out", legacy, k, 4) for legacy in (False, True) for k in range(4)]
    shards += [("ent", False, depth, k, 4) for k in range(4)]  # default subsystem only, see ASSUMPTIONS
    return shards


def run_shard(shard):
    res = Shard()
    if shard[0] == "in":
        _, legacy, depth, k, n = shard
        alphabet = ops(None)
        for i, seq in enumerate(EX.sequences(alphabet, depth)):
            if i % n != k:
                continue
            fail, trace, m = run_seq(legacy, seq)
            case = {"engine": "in", "legacy": legacy, "seq": [list(o) for o in seq]}
            ran = bool(m.registered()) or any(t[1] for t in trace)
            res.case((tuple(map(tuple, (t[1] for t in trace)))), nontrivial=ran, transitions=len(seq),
                     config="in/" + ("legacy" if legacy else "new"), sample=case, state=tuple(sorted(m.registered())))
            if fail:
                feat = "+".join(sorted({o[2] for o in seq if o[0] == "DEF" and o[2] in ("V3", "V4")})) or "-"
                if fail["kind"] == "dead-definition-ran-after-sibling-removal":
                    feat = "*"
                res.fail(f"in|{'legacy' if legacy else 'new'}|{fail['kind']}|{feat}", case, expected=fail.get("expected"),
                         observed=fail.get("observed"), detail=fail)
    elif shard[0] == "ent":
        _, legacy, depth, k, n = shard
        for i, seq in enumerate(EX.sequences(ENT_OPS, depth)):
            if i % n != k:
                continue
            fail, trace = run_entity(legacy, seq)
            c = {"engine": "ent", "legacy": legacy, "seq": list(seq)}
            res.case(("ent", tuple(seq), repr(trace)), nontrivial=bool(trace), transitions=len(seq), config="ent/" + ("legacy" if legacy else "new"), sample=c)
            if fail:
                res.fail(f"ent|{'legacy' if legacy else 'new'}|{fail['kind']}|{fail.get('form')}", c, expected=fail.get("expected"), observed=fail.get("observed"), detail=fail)
    else:
        _, legacy, k, n = shard
        for i, case in enumerate(outgoing_cases()):
            if i % n != k:
                continue
            fail, obs = run_outgoing(legacy, case)
            c = {"engine": "out", "legacy": legacy, "case": list(case)}
            res.case(("out", case, repr(obs)), nontrivial=obs is not None, config="out/" + ("legacy" if legacy else "new"), sample=c)
            if fail:
                res.fail(f"out|{fail['kind']}|{case[1]}", c, expected=fail.get("expected"), observed=fail.get("observed"), detail=fail)
    return res


def replay(case):
    if case["engine"] == "in":
        fail, trace, m = run_seq(case["legacy"], [tuple(o) for o in case["seq"]])
        return {"ok": fail is None, "failure": fail, "trace": trace}
    if case["engine"] == "ent":
        fail, trace = run_entity(case["legacy"], tuple(case["seq"]))
        return {"ok": fail is None, "failure": fail, "trace": trace}
    fail, obs = run_outgoing(case["legacy"], tuple(case["case"]))
    return {"ok": fail is None, "failure": fail, "observed": obs}
