"""C01 — expressions and assignments behave exactly like Python (E3, differential against CPython)."""

from gen import exprs
from mc import progdiff as PD
from mc.result import Shard

PID = "C01"
LEVEL = "model_checking"
RULE = (
    "bounded-exhaustive enumeration of every derivation of the small-scope expression/assignment grammar "
    "(gen/exprs.py: operator x operand-kind tables, every node type in every child slot of every node type, "
    "reduced node set at depth 3), each program executed by pyscript's AstEval and by CPython; observation = "
    "(final globals with types and aliasing partition, tracer trail, exception type). distinct = distinct "
    "canonical observation; non-trivial = the trail is non-empty (a traced operand was evaluated)"
)
ASSUMPTIONS = [
    "CPython 3.12 executing the same source is the reference semantics",
    "only programs CPython's compiler accepts are compared",
    "values are drawn from the fixed pool in gen/exprs.py; deep nestings are covered compositionally to depth 3, not sampled",
    "pure Python code never suspends inside AstEval (checked: a suspension is a harness error)",
]
MAXTASKS = 20


def bounds(tier):
    fams = [f for f in exprs.FAMILIES if tier == "thorough" or f not in exprs.THOROUGH_ONLY]
    return {"families": fams, "value_pool": "full" if tier == "thorough" else "one per kind", "max_nesting": 3 if tier == "thorough" else 2}


def plan(tier, seed):
    full = tier == "thorough"
    shards = []
    for fam in exprs.FAMILIES:
        if fam in exprs.THOROUGH_ONLY and not full:
            continue
        n = 16 if fam in ("call", "nest3", "chain", "augassign", "display", "nest2") else 4
        for k in range(n):
            shards.append((fam, full, k, n))
    return shards


def classify(fam, src, ps, py):
    return f"{fam}|{PD.diff_kind(ps, py)}"


def check_one(res, fam, src):
    if not PD.compiles(src):
        return
    py = PD.run_py(src)
    ps = PD.run_ps(src)
    res.case(ps, nontrivial=bool(ps[1]), transitions=src.count("\n") + 1, config=fam, sample={"family": fam, "src": src})
    if ps != py:
        res.fail(classify(fam, src, ps, py), {"family": fam, "src": src}, expected=py, observed=ps,
                 detail=PD.trail_diff(ps[1], py[1]))


def run_shard(shard):
    fam, full, k, n = shard
    PD.install_stub_hass()
    res = Shard()
    for i, src in enumerate(exprs.FAMILIES[fam](full)):
        if i % n != k:
            continue
        check_one(res, fam, src)
    return res


def replay(case):
    PD.install_stub_hass()
    src = case["src"]
    py = PD.run_py(src)
    ps = PD.run_ps(src)
    return {"ok": ps == py, "src": src, "python": py, "pyscript": ps, "kind": PD.diff_kind(ps, py)}
