#!/venv/bin/python
"""Regression over all kept seeded changes: each must still make its check exit 1 with a VIOLATION line.

Runs on a scratch git worktree of /repo (under /tmp/verif-regress, removed at the end) through VERIF_REPO / VERIF_OUT,
so /repo and the committed evidence are not touched.   tools/seed_regress.py [PID ...]
"""
import glob
import json
import os
import re
import shutil
import subprocess
import sys

HERE = os.path.dirname(os.path.dirname(os.path.abspath(__file__)))
WT = "/tmp/verif-regress/wt"
OUT = "/tmp/verif-regress/out"
only = set(sys.argv[1:])


def sh(cmd, **kw):
    return subprocess.run(cmd, shell=True, capture_output=True, text=True, **kw)


sh(f"git -C /repo worktree remove --force {WT}; git -C /repo worktree prune")
shutil.rmtree("/tmp/verif-regress", ignore_errors=True)
os.makedirs(OUT)
r = sh(f"git -C /repo worktree add --detach {WT} HEAD")
if r.returncode:
    sys.exit("cannot create worktree: " + r.stderr)
bad = []
try:
    seeds = sorted(glob.glob(f"{HERE}/seeded/*/patch.diff"), key=lambda p: (p.split("/")[-2].split("-")[0], int(p.split("/")[-2].split("-")[1])))
    for patch in seeds:
        sid = patch.split("/")[-2]
        pid = sid.split("-")[0]
        if only and pid not in only and sid not in only:
            continue
        meta = json.load(open(os.path.join(os.path.dirname(patch), "meta.json")))
        m = re.search(r"detected by (C\d\d)", meta.get("checks", ""))
        check = m.group(1) if m else pid
        sh(f"git -C {WT} checkout -- .")
        a = sh(f"git -C {WT} apply {patch}")
        if a.returncode:
            print(f"{sid}: patch no longer applies ({a.stderr.strip()[:100]})", flush=True)
            bad.append(sid)
            continue
        env = dict(os.environ, VERIF_REPO=WT, VERIF_OUT=OUT)
        c = subprocess.run([f"{HERE}/check", check, "--tier", "quick"], capture_output=True, text=True, env=env)
        ok = c.returncode == 1 and "VIOLATION property=" in c.stdout
        print(f"{sid}: check {check} exit={c.returncode} {'detected' if ok else 'NOT DETECTED'}", flush=True)
        if not ok:
            bad.append(sid)
finally:
    sh(f"git -C /repo worktree remove --force {WT}; git -C /repo worktree prune")
    shutil.rmtree("/tmp/verif-regress", ignore_errors=True)
print("seeds not detected:", bad or "none")
sys.exit(1 if bad else 0)
