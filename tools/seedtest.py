#!/venv/bin/python
"""Apply a seeded change to /repo, run checks, undo it.

tools/seedtest.py <patch.diff> <PID> [--tier quick|thorough] [--more PID ...]
Prints the check's last lines and the verdict; /repo is always restored (git checkout -- .).
"""
import subprocess
import sys

patch = sys.argv[1]
pids = [sys.argv[2]]
tier = "quick"
args = sys.argv[3:]
while args:
    a = args.pop(0)
    if a == "--tier":
        tier = args.pop(0)
    elif a == "--more":
        pids += args
        args = []


def sh(cmd, **kw):
    return subprocess.run(cmd, shell=True, capture_output=True, text=True, **kw)


st = sh("git -C /repo status --porcelain --untracked-files=no")
if st.stdout.strip():
    sys.exit("refusing: /repo has uncommitted changes:\n" + st.stdout)
r = sh(f"git -C /repo apply {patch}")
if r.returncode != 0:
    sys.exit("patch does not apply: " + r.stderr)
try:
    for pid in pids:
        r = sh(f"cd /verif && ./check {pid} --tier {tier}")
        lines = [ln[:220] for ln in r.stdout.strip().split("\n") if ln.strip()]
        verdict = "DETECTED" if (r.returncode == 1 and "VIOLATION" in r.stdout) else ("harness-error" if r.returncode == 2 else "missed")
        print(f"[{pid} {tier}] exit={r.returncode} {verdict}")
        for ln in lines[-4:]:
            print("    " + ln)
        if r.returncode == 2:
            print("    stderr:", r.stderr.strip()[-600:])
finally:
    sh("git -C /repo checkout -- .")
