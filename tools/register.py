#!/venv/bin/python
"""tools/register.py PID ENGINE "level text" "level note" "technique"  — add/replace a check in MANIFEST.json."""
import json, sys
pid, engine, text, note, tech = sys.argv[1:6]
m = json.load(open('/verif/MANIFEST.json'))
m['checks'] = [c for c in m['checks'] if c['property_id'] != pid]
m['checks'].append({"property_id": pid, "quick_cmd": f"./check {pid} --tier quick", "thorough_cmd": f"./check {pid} --tier thorough",
  "evidence_file": f"evidence/{pid}.json", "replay_cmd_template": f"./check {pid} --replay {{path}}", "engine": engine,
  "level_claimed": {"category": "model_checking", "text": text, "design_ref": f"DESIGN.md 3/{pid}"}, "level_note": note, "technique": tech})
m['checks'].sort(key=lambda c: c['property_id'])
m['not_applicable'] = [n for n in m['not_applicable'] if n['property_id'] != pid]
for e in m['engines']:
    if e['name'] == engine:
        e['serves_properties'] = sorted(set(e['serves_properties']) | {pid})
json.dump(m, open('/verif/MANIFEST.json', 'w'), indent=1)
print("registered", pid)
