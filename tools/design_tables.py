#!/venv/bin/python
"""Regenerates the generated part of DESIGN.md section 7 (between the BEGIN/END GENERATED markers) from
known_findings.json, seeded/*/meta.json, MANIFEST.json and evidence/*.json."""
import glob
import json
import os
import re

V = "/verif"
out = []
m = json.load(open(f"{V}/MANIFEST.json"))
out.append("#### 7.a Checks as built (from MANIFEST.json and the last committed evidence)\n")
out.append("| property | engine | what the quick tier covered last (executions / transitions / distinct outcomes) | known findings witnessed |")
out.append("|---|---|---|---|")
for c in m["checks"]:
    pid = c["property_id"]
    try:
        e = json.load(open(f"{V}/evidence/{pid}.json"))
    except Exception:
        e = {}
    cv = e.get("coverage", {})
    ex = cv.get("evaluations") or cv.get("traces_validated_against_impl")
    out.append(f"| {pid} | {c['engine']} | {ex} / {cv.get('transitions')} / {cv.get('distinct_outcomes')} ({e.get('tier', '?')} tier) | {len(cv.get('known_findings_witnessed', []) or [])} |")
kf = json.load(open(f"{V}/known_findings.json"))
out.append("\n#### 7.b Genuine defects repaired (one `fix:` commit each in /repo; from known_findings.json)\n")
out.append("| property | commit | what failed before the repair |")
out.append("|---|---|---|")
for line in kf["fixed"]:
    mm = re.match(r"fixed: property=(\S+) (\S+) (.*)", line)
    out.append(f"| {mm[1]} | `{mm[2][:10]}` | {mm[3].replace('|', '/')} |")
out.append("\n#### 7.c Genuine defects recorded as known findings (not repaired)\n")
out.append("| property | signature | what fails |")
out.append("|---|---|---|")
seen = set()
for e in kf["known"]:
    what = e["what"].replace("|", "/")
    key = (e["property"], re.sub(r"\((legacy|new) subsystem[^)]*\)", "", what)[:80])
    if key in seen:
        out.append(f"| {e['property']} | `{e['sig']}` | (same finding, other subsystem / entry point) |")
        continue
    seen.add(key)
    out.append(f"| {e['property']} | `{e['sig']}` | {what} |")
out.append("\n#### 7.d Seeded changes and the checks that catch them (details: MUTATIONS.md, seeded/<id>/)\n")
out.append("| seed | change | caught by |")
out.append("|---|---|---|")
for d in sorted(glob.glob(f"{V}/seeded/*/meta.json"), key=lambda p: (os.path.basename(os.path.dirname(p)).split("-")[0], int(os.path.basename(os.path.dirname(p)).split("-")[1]))):
    mt = json.load(open(d))
    sid = os.path.basename(os.path.dirname(d))
    s = (mt.get("summary") or "").replace("|", "/").replace("\n", " ")
    out.append(f"| {sid} | {s[:160]}{'…' if len(s) > 160 else ''} | {(mt.get('checks') or '').replace('|', '/')[:220]} |")
text = "\n".join(out) + "\n"
p = f"{V}/DESIGN.md"
s = open(p).read()
b, e = "<!-- BEGIN GENERATED -->\n", "<!-- END GENERATED -->\n"
if b in s:
    s = s[:s.index(b) + len(b)] + text + s[s.index(e):]
    open(p, "w").write(s)
    print("DESIGN.md tables regenerated:", len(out), "lines")
else:
    print(text)
