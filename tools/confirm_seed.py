#!/venv/bin/python
"""Confirm a seeded change in its scratch worktree and file it under /verif/seeded/<PID>-<n>/.

tools/confirm_seed.py <PID> <n> "<check verdicts text>"
Steps (all in /tmp/seed/<PID>): demo passes on the pristine worktree; apply patch; import works; the pinned
baseline (88 stable tests) still passes; demo fails; revert.  Only then the seed is copied.
"""
import json
import os
import shutil
import subprocess
import sys

pid, n = sys.argv[1], sys.argv[2]
caught = sys.argv[3] if len(sys.argv) > 3 else ""
wt = f"/tmp/seed/{pid}"
sd = f"{wt}/_seed/{n}"
_py = sorted(f for f in os.listdir(sd) if f.endswith(".py"))
demo = [f for f in _py if f in ("demo.py", "test_demo.py")][0] if any(f in ("demo.py", "test_demo.py") for f in _py) else _py[0]


def sh(cmd, cwd=wt):
    return subprocess.run(cmd, shell=True, cwd=cwd, capture_output=True, text=True)


def run_demo():
    if demo.startswith("test_"):
        return sh(f"/venv/bin/python -m pytest -q -p no:cacheprovider {sd}/{demo}")
    return sh(f"/venv/bin/python {sd}/{demo}")


ran = []
sh("git checkout -- .")
r = run_demo()
ran.append(f"demo on pristine worktree: exit {r.returncode}")
if r.returncode != 0:
    sys.exit(f"{pid}-{n}: demo fails on pristine tree\n{r.stdout[-500:]}{r.stderr[-500:]}")
r = sh(f"git apply {sd}/patch.diff")
if r.returncode != 0:
    sys.exit(f"{pid}-{n}: patch does not apply: {r.stderr}")
try:
    r = sh("/venv/bin/python -c 'import custom_components.pyscript'")
    ran.append(f"import with change: exit {r.returncode}")
    if r.returncode != 0:
        sys.exit(f"{pid}-{n}: import fails")
    r = sh(f"/verif/tools/baseline_check.py {wt}", cwd="/verif")
    ran.append("pinned baseline with change: " + r.stdout.strip().split("\n")[0])
    if r.returncode != 0:
        sys.exit(f"{pid}-{n}: baseline broken by the change\n{r.stdout}")
    r = run_demo()
    ran.append(f"demo with change: exit {r.returncode}")
    if r.returncode == 0:
        sys.exit(f"{pid}-{n}: demo does not fail with the change")
finally:
    sh("git checkout -- .")
dst = f"/verif/seeded/{pid}-{n}"
os.makedirs(dst, exist_ok=True)
shutil.copy(f"{sd}/patch.diff", dst)
shutil.copy(f"{sd}/{demo}", dst)
for extra in _py:
    if extra != demo:
        shutil.copy(f"{sd}/{extra}", dst)  # helper modules the demo imports
meta = json.load(open(f"{sd}/meta.json"))
out = {"property": pid, "summary": meta.get("summary"), "needs": meta.get("needs"), "author": "independent sub-agent (given only the property text and a scratch worktree)",
       "confirmed_by_me": ran, "checks": caught, "demo": demo}
json.dump(out, open(f"{dst}/meta.json", "w"), indent=1)
print(f"{pid}-{n}: kept ->", dst)
