#!/venv/bin/python
"""Regenerate the "fixed" list of known_findings.json from /repo's fix: commits (hashes change on rebase)."""
import json, subprocess
TABLE = {
 "evaluate each operand of a chained comparison exactly once": ("C01", "chained comparison evaluated its middle operands twice: x = t('a',1) < t('b',2) < t('c',3) gave trail a,b,b,c"),
 "evaluate dict display keys before their values": ("C01", "dict display evaluated each value before its key: {t('k',1): t('v',2)} gave trail v,k"),
 "evaluate call arguments in Python's order and reject duplicate keywords": ("C01", "keywords evaluated before positionals; duplicate keyword through ** not rejected: rec(k=t('kw',1), *t('pos',[2])) ; f(a=1, **{'a': 2})"),
 "augmented assignment operates in place and evaluates its target once": ("C01", "a = b = []; a += [1] left b == []; l[t('i',0)] += 1 gave trail i,i"),
 "support the @ (matrix multiplication) binary operator": ("C01", "t('a',0) @ t('b',0) raised NotImplementedError without evaluating operands"),
 "unary plus applies the operator instead of returning its operand": ("C01", "+True gave True, +'a' gave 'a' instead of TypeError"),
 "honour !r, !s and !a conversions in f-strings": ("C01", "f\"{'s'!r}\" gave s instead of 's'"),
 "support list targets and arbitrary starred targets in unpacking assignment": ("C01", "[a, b] = 1, 2 raised NotImplementedError; a, *o.y = [1,2,3] raised AttributeError"),
 "del supports object attributes and tuple/list targets": ("C01", "o = O(); del o.x raised RuntimeError; del (a, b) raised NotImplementedError"),
 "restore comprehension loop variables when the comprehension raises": ("C01", "x = [1/0 for v in [1]] left v defined in the enclosing scope"),
 "annotated assignment evaluates the value before the annotation": ("C01", "a: t('ann', int) = t('r', 1) gave trail ann,r"),
 "with statement follows nested context manager semantics": ("C02", "with CM('a'), CM('b', suppress=True): raise E1 -> outer manager received the suppressed exception and the exception still propagated; managers whose __enter__ never ran were exited"),
 "break and continue in a loop's else clause apply to the enclosing loop": ("C02", "for..: for..: pass else: break  -> the break was dropped and the else clause kept running"),
 "a keyword named like a positional-only parameter goes to **kwargs": ("C03", "def f(a, /, **kw); f(1, a=2) raised TypeError"),
 "evaluate decorator expressions before argument defaults": ("C03", "@deco('a') def f(p=t('dflt',1)) evaluated the default before the decorator expression"),
 "comprehension loop variables are local to the comprehension": ("C03", "x='M'; def f(): y=[x for x in [1]]; return x  raised NameError (x treated as local of f)"),
 "leaving an except clause unbinds its variable without dropping the closure cell": ("C03", "except E1 as x in a function with inner functions: inner 'nonlocal x' rejected with SyntaxError; inner read of x fell through to the global x"),
 "a class that defines __init__ no longer also runs the inherited __init__": ("C03", "class B(O): def __init__(self): self.x = 9 -> B() also ran O.__init__ (b.y existed)"),
 "names bound by import inside a function are local variables": ("C03", "def f(): import math as x; def g(): nonlocal x ... raised NameError"),
 "a name declared global in the enclosing function is global in inner functions": ("C03", "g declares 'global x' and defines h reading x while an outer f has a local x: h raised NameError instead of reading the global"),
 "a bound method keeps its instance alive": ("C03", "class A: def m(self): return self.z ; A().m() raised AttributeError (self was None)"),
 "trigger expressions see the values other variables had when the event occurred": ("C04", "burst [A1, B1] with no loop callback in between, @state_trigger(\"pyscript.a == '1' and pyscript.b == '1'\"): the A1 event was evaluated with b's later value '1' (extra run); with b deleted meanwhile the evaluation raised NameError (missing run)"),
 "an update that changes no watched value does not count as a false evaluation": ("C05", "new subsystem, state_hold=10.5: T at 2 s then attribute-only update A at 9 s -> the pending hold was cancelled (no run at 12.5 s); with state_hold_false the update armed the false timer"),
 "the run after state_hold carries the arguments of the event that started the hold": ("C05", "new subsystem, state_hold=10.5: T at 2 s, T2 at 4 s -> the run at 12.5 s carried var_name=pyscript.b of the later event"),
 "state_check_now triggers at startup even when state_hold_false is set": ("C05", "new subsystem, state_check_now=True, state_hold_false=0, expression true at definition: no run at definition time; task.wait_until dropped state_hold_false after a true startup check (F at 2 s, T at 4 s with hold_false=6.25 returned)"),
 "legacy task.wait_until starts the state_hold_false period when the expression is false at the call": ("C05", "legacy task.wait_until(state_hold_false=0), expression false at the call, T at 2 s: never returned"),
 "unsubscribing a trigger removes its queue from every watched entity": ("C09", "function with @state_trigger(\"pyscript.a == '1' and pyscript.a.old == '0' and pyscript.b == '1'\"): after [define f, del f] a queue stayed registered under pyscript.b (for name sets whose iteration order visits pyscript.b after both names of pyscript.a)"),
 "@service accepts several service names in the new decorator subsystem": ("C12", "new subsystem: @service(\"test.s1\", \"test.s2\") registered nothing (validation rejected more than one argument); docs: multiple arguments register multiple names"),
 "legacy task.wait_until releases its subscriptions on every exit path": ("C15", "legacy: task.wait_until(state_trigger=..., event_trigger='ev1') killed by task.cancel/task.unique while waiting: State.notify / Event.notify entries and the bus listener stayed registered"),
 "'now' in a task.wait_until time_trigger stays the time of the call (legacy)": ("C15", "legacy: task.wait_until(time_trigger='once(now + 5s)', event_trigger=['ev1', 'arg == 1']) with a non-matching event at 2 s returned at 7 s instead of 5 s"),
 "task.wait_until stops its triggers when the waiting task is cancelled": ("C15", "new subsystem: wait_until killed while waiting left bus listeners, state subscriptions, MQTT subscriptions and webhook handlers registered"),
 "task.wait_until(timeout=0) times out immediately in the new subsystem": ("C15", "new subsystem: task.wait_until(event_trigger='ev1', timeout=0) never returned"),
 "task.wait_until returns 'none' only when nothing but exhausted time triggers was given": ("C15", "new subsystem: task.wait_until(time_trigger='once(2020/1/1 00:00)', mqtt_trigger='t/a') returned trigger_type 'none' at once"),
 "a done callback that raises no longer cancels the remaining done callbacks": ("C14", "task with done callbacks [cbRaise, cbA]: after cbRaise raised, cbA never ran"),
 "tasks started by service calls support done callbacks": ("C14", "@service function calling task.add_done_callback(task.current_task(), cb) failed with KeyError: the service task had no callback table"),
 "a requirement with a malformed version is ignored regardless of line order": ("C20", "requirements lines ['p==notaversion', 'p==1.0'] selected 'notaversion' while ['p==1.0', 'p==notaversion'] selected 1.0"),
 "the Jupyter kernel drops an invalid shell message instead of shutting down": ("C19", "request sequence [execute_request signed with a wrong key, kernel_info_request]: the forged request shut the session down and the valid request got no reply"),
 "exceptions in trigger functions are logged with the script's traceback (new subsystem)": ("C18", "new subsystem: 1/0 three calls below an @event_trigger function was logged by custom_components.pyscript.function as 'run_coro: got exception' with an eval.py frame, not on the script's logger with hello.py frames"),
 "a deleted file of an app or module triggers the documented dependent reloads": ("C10", "delete apps/app1/sib.py (imported by apps/app1/__init__.py) + default reload: app1 was not reloaded and kept the stale sibling; delete modules/m1.py: its importers were not reloaded; reload(global_ctx='apps.app1') after deleting the sibling left the context apps.app1.sib loaded"),
 "once() with a yearless, day-of-week or sun-relative date keeps finding its next occurrence": ("C06", "timer_trigger_next(['once(wed 2:30)'], now=Wed 2020-01-01 02:30:00) gave None (next Wednesday expected; the trigger ended after firing once); same for once(12/31 noon) after 12/31 noon of the current year; once(sunrise +1d) at now=2019-12-31 06:51:16 gave None"),
 "once() waits the real time until its local time across a DST change": ("C06", "@time_trigger('once(18:00)') started 2020-03-07 17:00 US/Pacific: the run of 2020-03-08 came at 19:00 local (24 h of real time after the previous one) in both subsystems"),
 "time trigger wake-up check compares the clock with the local trigger time": ("C06", "new subsystem, @time_trigger('cron(0 18 * * *)') across 2020-11-01: the run came at 19:00 local; cron(1 1-4 * * *): 2:01 an hour late, 3:01 never"),
 "time trigger does not run twice when woken just before the trigger time": ("C06", "new subsystem, @time_trigger('period(0:00, 1h)') with the wall clock 1 us behind the timer: the 1:00 instant ran twice (trigger_time 01:00 both times)"),
 "@time_active checks its arguments together": ("C07", "new subsystem: @event_trigger('ev') @time_active('range(8:00, 22:00)', 'not range(12:00, 13:00)') ran at 12:30; @time_active('not range(8:00, 11:00)', 'not range(12:00, 13:00)') ran at 12:59:59.999999 (each argument was evaluated on its own, first match wins)"),
 "hold_off counts from the last trigger that ran the function": ("C07", "new subsystem: @time_active(hold_off=10) above @event_trigger above @state_active(\"pyscript.gate == '1'\"), occurrences at 0, 11, 20, 29 s with the gate open, closed, open, open: the occurrence at 20 s was ignored (the rejected one at 11 s restarted the hold_off) and the one at 29 s ran"),
 "a trigger expression that evaluates to 0, '' or None counts as false": ("C07", "new subsystem: @state_active('int(pyscript.gate)') with pyscript.gate == '0' (also an expression giving '' or None): the event trigger ran the function although the guard value is falsy"),
 "a function replaced or deleted while its file loads never gets its triggers started": ("C09", "new subsystem: a file defining @event_trigger('ev1') def f twice (or defining a trigger function and deleting it with del) left the first definition's triggers active after loading: firing ev1 ran both definitions and the bus listener count was 3 instead of 1"),
 "@service registers under its global context's name": ("C12", "new subsystem: a file's @service('test.f1') function redefined from inside a running service function of the same file (global fsvc; @service('test.f1') def fsvc ...): the new declaration was rejected ('already defined in file.a') and test.f1 no longer existed"),
 "a relative import from a module inside a package names the imported context after the package": ("C11", "modules/m2/__init__.py and modules/m2/sib.py both doing 'from . import other': other.py was loaded twice (contexts modules.m2.other and modules.m2.sib.other); m2.set_other('x') was not seen through sib.via_other()"),
 "the body of a class defined in a function can read that function's variables": ("C03", "def outer(k): loc = 5; class C: got = (k, loc) -> NameError: name 'k' is not defined (class body statements could not see the enclosing function's parameters and locals; methods could)"),
 "a global declaration in any enclosing function is honoured by nested functions": ("C03", "x = 'M'; def f(): def g(): global x; x = 'G2'; def h(): def k(): return x ... ; x = 'A1' in f: k (two levels below the global declaration) raised NameError / saw f's local instead of the global x (C03 thorough, scope depth 4)"),
 "an error in the truth test of a trigger expression no longer ends the legacy trigger": ("C18", "legacy subsystem: @state_trigger('Boom(int(pyscript.go))') (also an event filter and a @state_active expression) where Boom(0).__bool__ raises ValueError: one message on custom_components.pyscript.trigger instead of the script's logger, and the trigger function never ran again"),
 "scripts reloaded because they import a reloaded module are started again": ("C10", "a.py imports modules/m1.py and has an @event_trigger and a @service; pyscript.reload(global_ctx='modules.m1'): file.a was re-executed but left unstarted - its trigger never ran again and (default subsystem) its service was gone until the next general reload"),
 "a changed global option reloads all scripts on the first reload after start-up too": ("C10", "allow_all_imports toggled in the yaml configuration, then the first pyscript.reload after start-up: only files that had changed themselves were reloaded (nothing, if none had); the documented reload of all scripts only happened from the second reload on"),
 "a @service declaration that is rejected for one of its names registers none of them": ("C12", "context S declares @service('test.s1'); context T declares @service('test.t_own', 'test.s1') (refused: s1 belongs to S); unload the integration: test.t_own is still registered in Home Assistant (both subsystems; in the default one also after 'del' of T's function)"),
}
log = subprocess.run(["git", "-C", "/repo", "log", "--reverse", "--format=%h %s"], capture_output=True, text=True).stdout.strip().split("\n")
fixed = []
for line in log:
    h, subj = line.split(" ", 1)
    if not subj.startswith("fix:"):
        continue
    key = subj[4:].strip()
    if key not in TABLE:
        raise SystemExit(f"fix commit without a table entry: {line}")
    pid, what = TABLE[key]
    fixed.append(f"fixed: property={pid} {h} {what}")
kf = json.load(open("/verif/known_findings.json"))
kf["fixed"] = fixed
json.dump(kf, open("/verif/known_findings.json", "w"), indent=1)
print(len(fixed), "fixed entries")
