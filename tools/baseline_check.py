#!/venv/bin/python
"""Run the repository's pinned baseline (guard OFF) and compare with /root/.vp/BASELINE.json.

Usage: tools/baseline_check.py [repo_dir]      exit 0 iff every stable_pass test passes.
"""
import json
import os
import subprocess
import sys
import tempfile
import xml.etree.ElementTree as ET

repo = sys.argv[1] if len(sys.argv) > 1 else "/repo"
base = json.load(open("/root/.vp/BASELINE.json"))
want = set(base["stable_pass"])
env = dict(os.environ)
env.pop("PYSCRIPT_VERIF", None)
env["PYTHONDONTWRITEBYTECODE"] = "1"
with tempfile.TemporaryDirectory() as td:
    xml = os.path.join(td, "j.xml")
    subprocess.run(
        ["/venv/bin/python", "-m", "pytest", "-ra", "-q", "-p", "no:cacheprovider", "--timeout=900",
         "--continue-on-collection-errors", f"--junitxml={xml}"],
        cwd=repo, env=env, stdout=subprocess.DEVNULL, stderr=subprocess.DEVNULL)
    passed = set()
    for tc in ET.parse(xml).getroot().iter("testcase"):
        if not any(ch.tag in ("failure", "error", "skipped") for ch in tc):
            passed.add(f"{tc.get('classname')}::{tc.get('name')}")
missing = sorted(want - passed)
print(f"baseline: {len(want & passed)}/{len(want)} stable tests pass; newly passing others: {len(passed - want)}")
for m in missing:
    print("  MISSING", m)
sys.exit(1 if missing else 0)
